#!/usr/bin/env python3
"""genaudit.py [quick|thorough] -- BOUNDED stand-in for the half of C09 no function contract reaches ("generation terminates without panicking and the
emitted Rust compiles against the runtime crate"): the repository's own generator, built from the tree under test, is run on every interface definition
of a finite family, and ALL outputs are type-checked by rustc in one scratch crate that depends on the tree's `varlink` crate.

family = every *.varlink file of the repository  +  synthetic definitions: one type expression at one position per definition,
         positions {field of a type, method input, method output, error parameter},
         type expressions = decoration prefix (<= 1 of `?`, `[]`, `[string]` in the quick tier, <= 2 without `??` in the thorough tier)
                            in front of {int, string, a named struct type, a named enum type, an anonymous struct, an anonymous enum, a string set},
         + definitions whose member / field names are Rust keywords, + a definition with every primitive and several members of every kind.
Prints one JSON line per bounded obligation: C09.total-bounded (the generator exits 0 on every accepted definition) and C09.compiles-bounded."""
import json
import os
import re
import shutil
import subprocess
import sys

VERIF = os.path.dirname(os.path.dirname(os.path.abspath(__file__)))
repo = os.environ.get("VX_REPO", "/repo")
build = os.environ.get("VX_BUILD") or os.path.join(VERIF, "build")
tier = sys.argv[1] if len(sys.argv) > 1 else "quick"


def family():
    fam = []
    for root, dirs, files in os.walk(repo):
        dirs[:] = [d for d in dirs if d not in ("target", ".git")]
        for fn in sorted(files):
            if fn.endswith(".varlink"):
                p = os.path.join(root, fn)
                fam.append(("repo:" + os.path.relpath(p, repo), open(p).read()))
    decos = ["?", "[]", "[string]"]
    prefixes = [""] + decos
    if tier == "thorough":
        prefixes += [a + b for a in decos for b in decos if not (a == "?" and b == "?")]
    bases = ["int", "string", "T0", "E0", "(a: int, b: ?string)", "(x, y)", "[string]()"]
    head = "interface org.example.audit\n\ntype T0 (f: int, g: ?[]string)\n\ntype E0 (one, two)\n\n"
    k = 0
    for pre in prefixes:
        for b in bases:
            t = pre + b
            for pos, member in (("type-field", "type U (v: %s, w: bool)"), ("method-in", "method M(v: %s, w: bool) -> ()"),
                                ("method-out", "method M() -> (v: %s, w: bool)"), ("error-param", "error Fail (v: %s, w: bool)")):
                fam.append(("syn:%s:%s" % (pos, t), head + member % t + "\n"))
                k += 1
    fam.append(("syn:keywords", "interface org.example.kw\n\ntype Kw (type: int, struct: string, fn: bool, match: ?int, in: int, loop: []int)\n\n"
                                "method Do(type: int, in: string, ref: bool) -> (struct: int, mod: ?string)\n\nerror Bad (type: string, move: int)\n"))
    kws = ("as break const continue crate else enum extern false fn for if impl in let loop match mod move mut pub ref return self static struct super trait true type unsafe use where while "
           "async await dyn abstract become box do final macro override priv typeof unsized virtual yield try").split()
    fam.append(("syn:keyword-methods", "interface org.example.kwm\n\n" + "\n\n".join("method %s(a: int) -> (b: int)" % (k[0].upper() + k[1:]) for k in kws) + "\n"))
    fam.append(("syn:everything", "# doc\ninterface org.example.all\n\n# a struct\ntype S (b: bool, i: int, f: float, s: string, o: object, t: S2, e: En, ob: ?bool, ai: []int, ms: [string]string, set: [string]())\n\n"
                                  "type S2 (x: int)\n\ntype En (a, b, c)\n\nmethod A() -> ()\n\nmethod B(s: S) -> (s: S)\n\nmethod C(x: ?S2, y: [](q: int)) -> (z: (k, l))\n\n"
                                  "error E1 ()\n\nerror E2 (s: S, n: ?int)\n"))
    return fam


def emit(ob, found, explored, detail, **kw):
    print(json.dumps(dict({"obligation": ob, "found": found, "explored": explored, "detail": detail}, **kw)))


def main():
    env = dict(os.environ, CARGO_NET_OFFLINE="true")
    gtd = os.path.join(build, "gen-target")
    b = subprocess.run(["cargo", "build", "--release", "--offline", "-q", "-p", "varlink_generator", "--bin", "varlink-rust-generator"], cwd=repo,
                       env=dict(env, CARGO_TARGET_DIR=gtd), capture_output=True, text=True, timeout=1500)
    if b.returncode != 0:
        print(json.dumps({"found": False, "genaudit_build_failed": True, "stderr": b.stderr[-400:]}))
        return
    gen = os.path.join(gtd, "release", "varlink-rust-generator")
    fam = family()
    crate = os.path.join(build, "genaudit")
    src = os.path.join(crate, "src")
    shutil.rmtree(src, ignore_errors=True)
    os.makedirs(src)
    with open(os.path.join(crate, "Cargo.toml"), "w") as f:
        f.write('[package]\nname = "vx-genaudit"\nversion = "0.1.0"\nedition = "2018"\n[workspace]\n[lib]\npath = "src/lib.rs"\n[dependencies]\n'
                'varlink = { path = "%s/varlink" }\nvarlink_derive = { path = "%s/varlink_derive" }\nserde = "1.0.102"\nserde_derive = "1.0.102"\nserde_json = "1.0.41"\n' % (repo, repo))
    lock = os.path.join(VERIF, "replay", "Cargo.lock")
    if os.path.exists(lock) and not os.path.exists(os.path.join(crate, "Cargo.lock")):
        shutil.copy(lock, os.path.join(crate, "Cargo.lock"))
    total_fail = None
    mods = []
    for i, (name, text) in enumerate(fam):
        p = subprocess.run([gen], input=text, capture_output=True, text=True, timeout=60)
        if p.returncode != 0:
            if total_fail is None:
                total_fail = {"definition": name, "source": text, "generator_exit": p.returncode, "stderr": p.stderr[-600:]}
            continue
        with open(os.path.join(src, "m%d.rs" % i), "w") as f:
            f.write(p.stdout)
        mods.append(i)
    # the procedural-macro front end (varlink_derive): the same text reaches the generator through `varlink!` / `varlink_file!`; module index 9000+k in the report
    extra = {}
    macro_defs = [
        ("macro:doc-comment-right-after-the-quote", 'varlink_derive::varlink!(mac0, r#"# Example service\ninterface org.example.mac0\n\n# Returns the same string\nmethod Ping(ping: string) -> (pong: string)\n"#);'),
        ("macro:leading-newline", 'varlink_derive::varlink!(mac1, r#"\n# doc\ninterface org.example.mac1\n\nmethod Ping(ping: string) -> (pong: string)\n"#);'),
        ("macro:two-hashes", 'varlink_derive::varlink!(mac2, r#"## Example service\ninterface org.example.mac2\n\ntype T (a: int, b: ?[]string)\n\nmethod M(t: T) -> (r: [string]T)\n\nerror E (why: string)\n"#);'),
        ("macro:file", 'varlink_derive::varlink_file!(mac3, "%s/examples/ping/src/org.example.ping.varlink");' % repo),
    ]
    for k, (name, text) in enumerate(macro_defs):
        with open(os.path.join(src, "m%d.rs" % (9000 + k)), "w") as f:
            f.write(text + "\n")
        extra[9000 + k] = (name, text)
        mods.append(9000 + k)
    with open(os.path.join(src, "lib.rs"), "w") as f:
        f.write("#![allow(warnings)]\n" + "".join("pub mod m%d;\n" % i for i in mods))
    c = subprocess.run(["cargo", "check", "--offline", "--message-format=json", "-q"], cwd=crate,
                       env=dict(env, CARGO_TARGET_DIR=os.path.join(build, "genaudit-target")), capture_output=True, text=True, timeout=1800)
    bad = {}
    for l in c.stdout.split("\n"):
        if not l.startswith("{"):
            continue
        try:
            d = json.loads(l)
        except ValueError:
            continue
        msg = d.get("message") or {}
        if d.get("reason") == "compiler-message" and msg.get("level") == "error":
            for sp in msg.get("spans", []):
                m = re.search(r"m(\d+)\.rs$", sp.get("file_name", ""))
                if m:
                    bad.setdefault(int(m.group(1)), [])
                    txt = re.sub(r"\bm\d+::", "", msg.get("message", ""))[:200]
                    if txt not in bad[int(m.group(1))]:
                        bad[int(m.group(1))].append(txt)
    compile_fail = None
    if c.returncode != 0 and not bad:
        # not a verdict about the generator: the scratch crate did not get as far as type-checking a generated module (dependency resolution, the tree's varlink crate itself, ...)
        print(json.dumps({"found": False, "genaudit_infrastructure_failure": True, "stderr": c.stderr[-400:]}))
        return
    if bad:
        i = sorted(bad)[0]
        look = lambda j: extra[j] if j in extra else fam[j]
        compile_fail = {"definition": look(i)[0], "source": look(i)[1], "rustc_error": bad[i][0],
                        "failing": [{"definition": look(j)[0], "source": look(j)[1], "errors": bad[j]} for j in sorted(bad)]}
    sample = {"definition": fam[len(fam) // 2][0], "source": fam[len(fam) // 2][1]}
    emit("C09.total-bounded", total_fail is not None, len(fam), total_fail, definitions=len(fam), tier=tier, sample=sample)
    emit("C09.compiles-bounded", compile_fail is not None, len(mods), compile_fail, definitions=len(fam) + len(extra), macro_invocations=len(extra), tier=tier, sample=sample)


if __name__ == "__main__":
    main()
