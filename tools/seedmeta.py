#!/usr/bin/env python3
"""seedmeta.py <confirm.log> -- writes seeded/<name>/meta.json and seeded/README.md from the confirmation log and the check results"""
import json
import os
import re
import sys

VERIF = os.path.dirname(os.path.dirname(os.path.abspath(__file__)))
SEEDED = os.path.join(VERIF, "seeded")

DESC = {
    "C01-1": ("C01", "handle() coalesces replies in a local buffer, but the no-dot branch still writes straight to the connection",
              "a request that produces a reply followed, in the same read buffer, by a request whose method has no dot (pipelining depth >= 2)"),
    "C01-2": ("C01", "ReplyMode refactor computed once in Call::new tests `more` before `oneway`",
              "a request carrying both oneway:true and more:true (no client in the tree sends it)"),
    "C02-1": ("C02", "handle() passes the bytes of read_until through String::from_utf8_lossy before the NUL check; tail and parse input come from the lossy string",
              "a non-ASCII request and a chunk boundary strictly inside a multi-byte UTF-8 character of an unfinished message"),
    "C02-2": ("C02", "on EOF without terminator, bytes that already parse as a complete request are served instead of returned as the tail",
              "a cut exactly between a message body and its NUL (one position per message)"),
    "C03-1": ("C03", "handle() caches the previous request's interface name and skips rfind('.') when the next method starts with `<cached>.`",
              "two requests on one connection: first to interface P, then to an interface named P.<more> (e.g. a.b then a.b.c.Method)"),
    "C04-1": ("C04", "reply_struct's three leading checks merged: the oneway suppression is only reached when continues is false",
              "a request with oneway:true AND more:true to a method that streams with set_continues(true)"),
    "C04-2": ("C04", "is_oneway() short-circuits on `upgraded` ('an upgraded call carries no request')",
              "a oneway request to a method that calls to_upgraded() before replying (two cooperating sites)"),
    "C05-1": ("C05", "MethodCall::recv handles the error reply before the continues match, through a release() helper that never resets self.continues",
              "a more() call whose FINAL reply is an error, followed by another next()"),
    "C05-2": ("C05", "Call gains flags_checked: the CallContinuesMismatch gate is only evaluated until it passed once",
              "the script [reply, set_continues(true), reply] on a request without more"),
    "C06-1": ("C06", "the malformed message echoed in ErrorKind::SerdeJsonDe is cut with String::truncate(256)",
              "a malformed message longer than 256 bytes whose lossy rendering has a multi-byte character across byte 256 (panic; kills a pool worker)"),
    "C06-2": ("C06", "a ReplyBatch writer holds replies while more input is buffered; the `?` error returns skip the release",
              "one or more valid requests followed by a malformed message in the same read buffer"),
    "C07-1": ("C07", "send() checks for a busy connection under connection.read(), serialises outside any lock, then takes connection.write() without re-checking",
              "two threads sharing the connection; one call becomes outstanding between the other's check and its write lock (unwrap panic, poisoned lock)"),
    "C07-2": ("C07", "recv(): the typed decode of the parameters now happens before the reader/writer are handed back",
              "a final reply without error whose parameters do not decode, followed by another call on the same connection (ConnectionBusy forever)"),
    "C08-1": ("C08", "generator: the dispatch arm is chosen by `bare_call = no input && no reply` instead of `no input`, so a method without parameters but with a reply gets the parsing arm",
              "`Start` sent without a `parameters` member (or with null): answered with InvalidParameter(parameters) instead of being dispatched"),
    "C08-2": ("C08", "generator: top-level `[string]T` members of Args/Reply structs get `#[serde(default, skip_serializing_if = ..is_empty)]`",
              "an empty or omitted dictionary: a request without `map` is no longer InvalidParameter, an empty map is dropped from the wire"),
    "C12-1": ("C12", "try_from's error closure cuts the line out with the byte offset and reports `offset - start + 1` (a byte distance) as the column",
              "a non-ASCII character (e.g. U+3000 / U+00A0 whitespace) in front of the error position on the same line: the column runs past the line"),
    "C12-2": ("C12", "`value.split('\\n').nth(line-1)` replaced by `value.lines().nth(line-1)` (drops the empty piece after a trailing newline)",
              "a truncated definition whose last byte is a line break, error at end of input: nth() is None and the unwrap panics"),
    "C14-1": ("C14", "worker loop: `let message = ...recv()` folded into the match scrutinee, so the receiver lock is held while the job runs",
              "at least two connections open at the same time (only one is ever in service; pool still grows, counter stays correct)"),
    "C14-2": ("C14", "execute() grows on `busy > workers.len() && busy < max_workers`",
              "max > initial and exactly max connections open at once: the pool never grows past max-1"),
    "C15-1": ("C15", "to_wait / wait_time hoisted out of the accept loop ('compute once'): the countdown is no longer restarted per accepted connection",
              "idle_timeout > 0 AND a stop flag configured (never set); a connection arriving partway through the idle period"),
    "C15-2": ("C15", "ThreadPool gets a shutting_down flag set by drop(); a worker skips a NewJob it receives once the flag is set",
              "pool saturated at max workers, a connection queued, stop flag set while a long-lived connection occupies the worker"),
    "C01-3": ("C01", "handle(): `continue` after a method name without a dot becomes `break` (read-ahead returned as rest, which listen() discards without an upgrade)",
              "a dot-less method name plus at least one more request in flight in the same read"),
    "C01-4": ("C01", "is_oneway() matches `oneway: Some(_)` instead of `Some(true)`",
              "a request carrying an explicit \"oneway\": false (treated as oneway, silently unanswered)"),
    "C02-3": ("C02", "handle() returns early after a dispatch when the inner BufReader's buffer is empty",
              "a message whose NUL lands exactly on byte k*8192 of the fed buffer, with more requests following"),
    "C02-4": ("C02", "listen worker: `unread = if i.is_some()` becomes `if iface.is_some()` (the previous mode)",
              "payload pipelined behind the upgrade request in the same write"),
    "C03-2": ("C03", "built-in Interface::call: `m == \"org.varlink.service.GetInfo\"` becomes `m.ends_with(\"GetInfo\")`",
              "a method string such as org.varlink.service.XGetInfo"),
    "C03-3": ("C03", "VarlinkService::new pushes the GetInfo name list inside the registration loop instead of taking the HashMap keys",
              "the same interface name registered twice (listed twice)"),
    "C04-3": ("C04", "reply_struct: the oneway early-return became an `else if` of `if self.continues`",
              "oneway:true AND more:true on a method that streams via set_continues(true)"),
    "C04-4": ("C04", "the oneway check became `self.is_oneway() && reply.error.is_none()`",
              "a oneway request that fails (unknown interface/method, no dot, invalid parameter)"),
    "C05-3": ("C05", "wants_more() matches `more: Some(_)`",
              "a request carrying an explicit \"more\": false on a method that sets continues"),
    "C05-4": ("C05", "recv(): the two self.continues assignments became `self.continues = self.reader.is_some()` after the error early-return",
              "a more call whose final reply is an error, and a consumer that keeps polling the iterator"),
    "C06-3": ("C06", "handle() parses String::from_utf8_lossy(&buf) with from_str instead of from_slice(&buf)",
              "invalid UTF-8 inside a JSON string token (accepted and answered instead of rejected)"),
    "C06-4": ("C06", "listen worker: `unread = rest` regardless of upgrade",
              "a truncated message followed by EOF / half-close through listen(): endless busy loop, connection never closed"),
    "C07-3": ("C07", "recv(): match arms `Some(true)` / `_` became `Some(c) => self.continues = c` / `None => give slots back`",
              "a final reply carrying an explicit \"continues\": false, then another call (ConnectionBusy forever)"),
    "C07-4": ("C07", "From<Reply> for ErrorKind: the MethodNotImplemented fallback returns MethodNotFound(\"\")",
              "error name MethodNotImplemented together with ill-typed parameters"),
    "C14-3": ("C14", "worker loop: the recv() statement folded into the match scrutinee (receiver lock held while the job runs)",
              "two overlapping connections"),
    "C14-4": ("C14", "ThreadPool::new: `0..initial_worker` becomes `0..=initial_worker`",
              "a configuration with initial >= max and max+1 simultaneous long-lived connections"),
    "C15-3": ("C15", "to_wait / wait_time hoisted out of the outer accept loop",
              "stop flag present, idle_timeout > 0, a connection arriving partway through the idle period"),
    "C15-4": ("C15", "`if stop.load(SeqCst)` becomes `if stop.load(SeqCst) && pool.num_busy() == 0`",
              "the flag set while a connection is in flight and a new client arriving afterwards (still served)"),
    "C17-2": ("C17", "#[serde(skip_serializing_if = \"Vec::is_empty\")] added on ServiceInfo::interfaces",
              "an empty interface list (member dropped, deserialization fails)"),
    "C17-3": ("C17", "Request::parameters: skip_serializing_if replaced by #[serde(default)]",
              "a request with parameters: None (serialises \"parameters\":null)"),
    "C11-1": ("C11", "from_token: the three cross-kind collision checks use X_keys.binary_search(&name).is_ok() instead of contains (keys are in order of appearance, not sorted)",
              "a cross-kind collision where the earlier kind has at least two members declared in non-alphabetical order"),
    "C11-2": ("C11", "varlink_grammar.rs rule type_: the three `?` alternatives collapsed into one `? type_` (stacked nullables accepted) -- a GRAMMAR change, outside the claimed slice",
              "two or more adjacent `?` in a type expression (expected miss: the peg grammar is not under contract)"),
    "C16-1": ("C16", "activation_listener: the LISTEN_PID guard inverted into an early return on mismatch with a catch-all `_ => {}`",
              "LISTEN_FDS >= 1 set but LISTEN_PID absent: the server adopts fd 3 although LISTEN_PID does not name it"),
    "C16-2": ("C16", "varlink_connect: `split(';').next()` replaced by `rsplit_once(';')` (only the LAST parameter is cut)",
              "an address with two or more `;` parameters: client and server disagree on the socket name"),
    "C18-1": ("C18", "proxy::handle: one buffer created before the outer loop replaces the per-message Vec::new(); cleared in the relay loop and after it",
              "a oneway call followed by another request: the `continue` skips the clear, the next request is glued onto the oneway one and the bridge exits 1"),
    "C18-2": ("C18", "the routing target is parsed only when a lookup is needed; the address cache is keyed by the method prefix, stored before the description query's interface replaces it",
              "two consecutive GetInterfaceDescription queries for interfaces living in different services: the second goes to the first service"),
    "C18-3": ("C18", "the org.varlink.resolver case pulled out of the `iface != last_iface` cache block into its own branch (address overwritten, cache key not updated)",
              "a call on interface X, a service-info query, X again: the third call is connected to the resolver"),
    "C18-4": ("C18", "relay loop: the per-reply `let mut buf = Vec::new()` hoisted out of the loop, the clear() forgotten",
              "a `more` call answered with two or more replies: reply 1 and 2 arrive glued together, the bridge fails to parse its own buffer and exits non-zero"),
    "C19-1": ("C19", "per-client step re-encoded as an index into a STEPS table; the gate becomes `if step > context.step { false } else { advance }`",
              "Start, Test01, Test02, then Test01 again: the earlier step is answered with its success reply and rewinds the client"),
    "C19-2": ("C19", "check_client_id uses `contexts.entry(client_id.into()).or_default()` with Default = Test01: unknown ids are enrolled",
              "Test01 under an id that Start never issued succeeds, and that id can run the whole sequence"),
    "C19-3": ("C19", "client-id table re-keyed as u64, lookup parses the id with from_str_radix(.., 16)",
              "a never-issued spelling of an issued id (leading 0, leading +, upper case) passes the gate of every step"),
    "C19-4": ("C19", "check_call_more! / check_call_oneway!: the leading arm rejecting the OTHER mode flags removed as redundant",
              "Test10 with both more and upgrade set streams its success replies"),
    "C20-1": ("C20", "varlink_call: the split is anchored on the FIRST dot (`url[..dot].rfind('/')`) instead of the last slash",
              "an address containing a dot (socket or directory name, tcp host, abstract name): the argument is cut too early"),
    "C20-2": ("C20", "resolver path: the idle resolver connection is reused when the resolved address `starts_with` the resolver address",
              "no address given and the resolved address merely extends the resolver's: the call goes to the resolver, not the service"),
    "C20-3": ("C20", "--more loop: ConnectionClosed after at least one printed reply is treated as a normal end of stream (break)",
              "--more, one `continues` reply, then the peer hangs up: exit status 0 although the announced reply never arrived"),
    "C20-4": ("C20", "print_call_ret -> render_call_ret returning a String; --more output is buffered when stdout is not a terminal",
              "--more with stdout piped, successful replies then an error reply: the pending successful replies are never written"),
    # ---- round 8 (2026-09-29, "subtle, shape-preserving" brief) ----
    "C02-7": ("C02", "handle(): the per-message buffer moved out of the loop and cleared at the bottom of the body; the `continue` of the no-dot branch skips the clear",
              "a request whose method has no dot followed in the same handle() call by more bytes: the next message is appended behind the stale one"),
    "C02-8": ("C02", "listen worker: `unread = if i.is_some()` becomes `if iface.is_some()` (the pre-call value)",
              "upgraded-protocol bytes arriving together with the upgrade request: the read-ahead is discarded at the None->Some transition"),
    "C03-6": ("C03", "VarlinkService::new builds the advertised interface list from the input vector instead of the table's keys",
              "the same interface name registered more than once: GetInfo lists it twice"),
    "C03-7": ("C03", "handle(): the rfind('.') match gains the guard `Some(x) if x + 1 < len`, everything else takes the no-dot arm",
              "a method string ending in a dot (`org.example.t.`): InterfaceNotFound naming the whole string, the registered interface is never asked"),
    "C09-3": ("C09", "varlink_derive::parse_varlink_args strips the raw-string delimiters with trim_matches('#' | '\"')",
              "`varlink!` with a definition whose first line is a doc comment right after `r#\"`: the leading `#` is eaten, the macro panics on an accepted definition"),
    "C09-4": ("C09", "method_ident() looks the snake-case name up in a hand-written keyword table that lacks `try`",
              "a method named `Try`: `fn try(..)` is emitted and rustc rejects it"),
    "C10-3": ("C10", "documentation text cut into lines with `.lines()` instead of `.split('\\n')` at every doc-emission site",
              "CRLF line endings inside a documentation block of two or more lines: the `\\r` is lost (docs differ, colored != plain for type docs)"),
    "C10-4": ("C10", "VStruct::get_multiline_colored: the fit test of the second and later fields becomes `<= max`",
              "colored output, a later field with an anonymous type, width exactly indent + 2 + its one-line length"),
    "C15-7": ("C15", "to_wait / wait_time hoisted out of the accept loop",
              "idle_timeout > 0 and a stop flag configured; a connection arriving part-way through the countdown"),
    "C15-8": ("C15", "execute: `*num_busy = (*num_busy + 1).min(max_workers)`; worker: `saturating_sub(1)` (two cooperating edits)",
              "saturation (more connections than workers): a queued connection is never counted, the server declares idle while it is served and stops accepting"),
    "C18-7": ("C18", "proxy::handle: `last_iface.clone_from(&iface)` moved into the looked-up branch",
              "resolver mode: a call on service A, GetInfo, another call on A: the third goes to the resolver"),
    "C18-8": ("C18", "WatchClose::new_read registers the descriptor it reads with EPOLLET -- unsafe epoll code, outside the verifier's reach; caught by the thorough tier's replay only",
              "one message larger than 8192 bytes arriving in one piece, then silence: the rest is never read"),
    # ---- round 7 (2026-09-29) ----
    "C04-5": ("C04", "reply_struct refactored into one `if continues { .. } else if is_oneway() { return }` chain with a shared write_reply helper",
              "a request with oneway:true AND more:true to a method that streams with set_continues(true): the intermediate replies are written"),
    "C04-6": ("C04", "VarlinkService caches serialized GetInterfaceDescription replies; a cache hit writes the cached bytes straight to call.writer",
              "the same description requested before on this service instance, then requested again with oneway:true"),
    "C05-5": ("C05", "the CallContinuesMismatch gate gains `&& reply.error.is_none()` while the continues stamp below it is unchanged",
              "a method that calls set_continues(true) and then sends an ERROR reply on a request without more"),
    "C05-6": ("C05", "MethodCall::recv handles the error reply first through a release() helper that no longer clears self.continues",
              "a `more` stream ending in an error reply, polled again afterwards: next() yields Err(IteratorOldReply) forever"),
    "C08-3": ("C08", "MethodCall::send drops the `parameters` member when the arguments serialise to an empty object",
              "a generated method whose inputs are all optional, called with every one unset: the generated dispatch answers InvalidParameter(parameters)"),
    "C08-4": ("C08", "Serialize for StringHashSet uses a unit struct as each member's value (serialises to null, not {})",
              "a non-empty `[string]()` value observed on the wire (the Rust deserialiser ignores member values, so round trips stay equal)"),
    "C11-3": ("C11", "trim_doc() simplified from the grammar's white-space list to str::trim()",
              "documentation trivia starting or ending with U+FEFF or U+180E (white space for the grammar, not for trim): the doc no longer mirrors the comment"),
    "C11-4": ("C11", "from_token's cross-kind lookups turned into BTreeMap::contains_key; in the Error arm the second operand slips to i.errors",
              "`method X` earlier than `error X` (the other eight ordered kind pairs are still reported)"),
    "C12-3": ("C12", "the error mapping cuts the offending line at every line terminator the grammar accepts, start = rfind(is_eol) + 1",
              "a syntax error whose nearest preceding terminator is U+2028 / U+2029: the slice starts inside the 3-byte encoding and panics"),
    "C12-4": ("C12", "rule vstruct gets a second alternative tolerating a trailing comma (PEG alternatives do not share work)",
              "struct nesting of a few dozen levels with an error at the innermost level: 2^depth, depth 40 does not return"),
    "C14-5": ("C14", "worker: `match receiver.lock().unwrap().recv() {..}` -- the guard is a temporary of the match and is held while the job runs",
              "two connections open at the same time: the second never reaches its handler although workers are free"),
    "C14-6": ("C14", "execute grows to `busy.min(max) + 1` workers (the +1 after the clamp)",
              "saturation: max connections in service and one more arriving: max+1 served concurrently"),
    "C16-3": ("C16", "activation_listener lets LISTEN_FDNAMES decide alone when present; `one fd means fd 3` only when it is absent",
              "one descriptor, correct LISTEN_PID, LISTEN_FDNAMES not containing `varlink` (systemd's default): activation ignored"),
    "C16-4": ("C16", "client: unix_socket_name() strips `;parameters` with rsplit_once(';') (only the last one)",
              "a unix address with two or more `;` parameters: the server binds the plain path, the client connects to `path;first`"),
    "C18-5": ("C18", "proxy::handle: the address cache is keyed on the method's interface prefix instead of the interface the request is routed to",
              "two GetInterfaceDescription requests back to back for interfaces on different services"),
    "C18-6": ("C18", "copy() flushes only after a short read or at EOF",
              "a burst that is an exact multiple of 8192 bytes, contains a newline, does not end in one, then the service waits: 64 bytes stay in Stdout's line buffer"),
    "C19-5": ("C19", "new_client_id hashes SystemTime in milliseconds",
              "two Start calls served within the same millisecond get the same client id"),
    "C19-6": ("C19", "client table re-keyed from String to u64 parsed from the hex id",
              "an unknown id that is a different string but the same number (`0<id>`, `+<id>`, upper case) passes the gate"),
    # ---- round 6 (2026-09-29) ----
    "C01-5": ("C01", "handle() reads each message through `.take(MAX_MESSAGE_SIZE)` (1 MiB): a longer request comes back without its NUL and is treated as an incomplete tail",
              "a well-formed request larger than 1 MiB with further requests pipelined behind it"),
    "C01-6": ("C01", "listen worker: `ErrorKind::SerdeJsonDe(_) => continue` (keep the connection after InvalidParameter) although handle()'s private BufReader, with its read-ahead, is gone",
              "a real socket served by listen(), a generated-interface call with an ill-typed parameter and at least one request already in flight behind it"),
    "C02-5": ("C02", "handle(): UTF-8 validation (`from_utf8` + `strip_suffix`) moved in front of the 'is the message complete?' decision",
              "a request containing a multi-byte character and a chunk boundary strictly inside that character"),
    "C02-6": ("C02", "listen worker: `let at_eof = !matches!(br.fill_buf(), ..)` evaluated even while a remainder behind an upgrade request waits to be handed over",
              "upgrade request and first upgraded-protocol bytes in ONE write, the client then waits for the answer without sending more or closing (deadlock)"),
    "C03-4": ("C03", "handle(): fast path sending every method that starts with `org.varlink.service.` to the built-in interface before the split at the last dot",
              "an interface whose name has the built-in name as a proper prefix (org.varlink.service.ext.Ping), registered or not"),
    "C03-5": ("C03", "VarlinkService::new builds the advertised list in registration order and removes repeats with Vec::dedup (adjacent only)",
              "the same interface name registered more than once, not adjacently: [a, b, a]"),
    "C06-5": ("C06", "the malformed message echoed in ErrorKind::SerdeJsonDe is capped with String::truncate(256)",
              "a malformed message longer than 256 bytes with an invalid byte at raw offset 254/255 (U+FFFD straddles the cut: panic)"),
    "C06-6": ("C06", "listen worker: `unread = rest` (keep the head of a message still in flight) instead of keeping it only after an upgrade",
              "a peer sends a truncated message without NUL and half-closes: the worker re-feeds the same bytes + EOF forever (spins, never closes)"),
    "C07-5": ("C07", "send() puts the writer slot back right after the flush; the busy check for oneway looks at the writer slot only (two cooperating edits)",
              "a oneway() from another call object / thread while a call or `more` iteration is outstanding on the connection"),
    "C07-6": ("C07", "From<Reply> for ErrorKind collapsed into a helper that matches the member name after `trim_start_matches(\"org.varlink.service.\")`",
              "an unqualified or doubly-qualified look-alike (`InvalidParameter`, `org.varlink.service.org.varlink.service.MethodNotFound`)"),
    "C09-1": ("C09", "cargo_build_options_many shares one String buffer across inputs (generate_buffered); read_to_string appends and the buffer is never cleared",
              "two or more interface files in ONE cargo_build_many call: the second is parsed as file1+file2 and fails"),
    "C09-2": ("C09", "`format!(\"{}_{}\", name, field)` folded into anon_type_name(), whose map arm drops the `elts.is_empty()` guard of the string-set special case",
              "a non-empty anonymous struct directly as a map value (`[string](a: int)`): the generator panics in format_ident!"),
    "C10-1": ("C10", "VStruct::get_multiline_colored rewritten as map/join with the fit test `indent + 2 + len <= max` (plain keeps `<`)",
              "a multi-line struct with a nested anonymous type at exactly the width where a field's one-line form hits the boundary"),
    "C10-2": ("C10", "VTypeExt::peel() helper used by get_multiline / get_multiline_colored silently skips a `?` that follows `[]` or `[string]`",
              "a type such as `[]?(a: int, ..)` in a field that does not fit on one line: the `?` is lost, plain and colored alike"),
    "C15-5": ("C15", "to_wait / wait_time hoisted out of the accept loop: the idle countdown is set once per listen() call",
              "idle_timeout > 0 AND a stop flag configured; a short-lived connection late in the idle period"),
    "C15-6": ("C15", "the stop-flag check moved from the Timeout arm to the top of the accept loop",
              "idle timeout and stop flag together, the flag set inside the last 100 ms poll before the idle deadline: Err(Timeout) instead of Ok(())"),
    "C17-4": ("C17", "skip_serializing_if = flag_is_unset (`!flag.unwrap_or(false)`) on Request::{more,oneway,upgrade} and Reply::continues",
              "a flag explicitly Some(false): omitted on the wire, read back as None"),
    "C17-5": ("C17", "Reply::parameters gets `#[serde(default, deserialize_with = reply_parameters)]` mapping an empty object to None",
              "a reply whose parameters are exactly `{}`"),
    "C20-5": ("C20", "varlink_connect splits tcp `<host>:<port>` at the last colon and calls TcpStream::connect((host, port)) -- the host keeps its brackets (client.rs: the address-form clause shared with C16)",
              "a bracketed IPv6 literal: `varlink call tcp:[::1]:PORT/iface.Method`"),
    "C20-6": ("C20", "--more loop swallows ConnectionClosed once `received > 0`",
              "`call --more`, at least one `continues` reply, then the service hangs up without the final reply: exit 0"),
    "C17-1": ("C17", "skip_serializing_if predicate replaced by `flag_is_default` (omit Some(false) like None) on Request/Reply flags",
              "a flag explicitly set to Some(false): round trip yields None; {\"oneway\":false} re-serialises without the member"),
}


def main():
    log = "\n".join(open(a).read() for a in sys.argv[1:] if os.path.exists(a))
    conf = {}
    for l in log.split("\n"):
        m = re.match(r"(C\d\d-\d) demo_on_HEAD=(\d+) demo_with_patch=(\d+) (?:varlink_lib_tests_with_patch|cli_and_varlink_tests_with_patch|certification_and_varlink_tests_with_patch)=(\d+)(?: certification_example_with_patch=(\d+))? \| base: (.*?) \| patched: (.*)$", l)
        if m:
            conf[m.group(1)] = {"demo_on_unmodified_tree_exit": int(m.group(2)), "demo_with_patch_exit": int(m.group(3)),
                                "varlink_lib_and_doc_tests_with_patch_exit": int(m.group(4)), "certification_and_example_tests_with_patch_exit": int(m.group(5)) if m.group(5) else None,
                                "demo_on_unmodified_tree": m.group(6), "demo_with_patch": m.group(7)}
    rows = []
    for name in sorted(os.listdir(SEEDED)):
        d = os.path.join(SEEDED, name)
        if not os.path.exists(os.path.join(d, "patch.diff")):
            continue
        prop, what, needs = DESC.get(name, ("?", "?", "?"))
        res = {}
        cands = [os.path.join(d, fn) for fn in ("result.scratch.json", "result.json", "result.own.json") if os.path.exists(os.path.join(d, fn))]
        if cands:
            res = json.load(open(cands[0]))
            own_p = os.path.join(d, "result.own.json")
            if os.path.exists(own_p) and own_p != cands[0] and os.path.getmtime(own_p) > os.path.getmtime(cands[0]):
                # a later run of the seed's own check (after the machinery was strengthened) supersedes that column
                res.setdefault("results", {}).update(json.load(open(own_p)).get("results", {}))
        results = res.get("results", {})
        cj = os.path.join(d, "confirm.json")
        if os.path.exists(cj):
            c = json.load(open(cj))
            conf[name] = {"demo_on_unmodified_tree_exit": c["demo_on_HEAD"], "demo_with_patch_exit": c["demo_with_patch"], "existing_tests_with_patch_exit": c["tests_with_patch"],
                          "existing_tests_run": "cargo test --offline " + " ".join("-p " + x for x in c["test_crates"]), "demo_cmd": c["demo_cmd"],
                          "demo_on_unmodified_tree": c["base"], "demo_with_patch": c["patched"]}
        meta = {
            "breaks_property": prop, "change": what, "needs_to_manifest": needs,
            "author": "independent sub-agent given only the property text and a scratch worktree of /repo",
            "confirmed_by_me": conf.get(name, "not yet confirmed"),
            "what_i_ran": ["scratch worktree of /repo HEAD; demo copied to varlink/tests/seed_demo.rs; `cargo test -p varlink --offline --test seed_demo` before and after `git apply patch.diff`",
                           "`cargo test -p varlink --offline --lib --doc`, `cargo test -p varlink-certification -p example --offline` with the patch applied",
                           "tools/seedrun.py --scratch: every registered check against a scratch worktree with the patch applied (replay built against that tree)"],
            "checks": {p: {"exit": r["exit"], "lines": r["lines"][:2]} for p, r in sorted(results.items())},
            "mode": res.get("mode"),
        }
        json.dump(meta, open(os.path.join(d, "meta.json"), "w"), indent=1)
        flagged = [p for p, r in sorted(results.items()) if r["exit"] == 1]
        und = [p for p, r in sorted(results.items()) if r["exit"] == 2]
        how = []
        own = results.get(prop, {})
        for l in own.get("lines", []):
            if l.startswith("obligation"):
                how.append("verifier: " + l.split(" failed")[0].replace("obligation ", ""))
        if own.get("exit") == 1 and not how:
            how.append("UNDECIDED by the verifier (changed code shape), decided by the replay's failing input")
        rows.append((name, prop, what, own.get("exit"), "; ".join(how)[:160], ",".join(flagged), ",".join(und)))
    with open(os.path.join(SEEDED, "README.md"), "w") as f:
        f.write("# Seeded property-breaking changes\n\nEach directory holds one change written by an independent sub-agent that saw only the property text and a scratch\n"
                "worktree of /repo (nothing from /verif): `patch.diff` (library change), `seed_demo.rs` (its demonstration: fails with the change, passes without),\n"
                "`agent_notes.md`, and `meta.json` (what it breaks, what it needs to manifest, what I ran to confirm it, the outcome of every registered check).\n"
                "None of these changes is ever committed to /repo.  Regenerate the table with `tools/seedrun.py --scratch && tools/seedmeta.py <confirm log>`.\n\n"
                "| seed | breaks | change | own check | how it is caught | checks reporting VIOLATION | checks UNDECIDED (exit 2, no alarm) |\n|---|---|---|---|---|---|---|\n")
        for r in rows:
            f.write("| %s | %s | %s | %s | %s | %s | %s |\n" % (r[0], r[1], r[2], {0: "**missed**" + (" (outside the claimed slice)" if "outside the claimed slice" in r[2] else ""), 1: "caught", 2: "undecided", None: "?"}.get(r[3], r[3]), r[4], r[5], r[6]))
        f.write("\nA check other than the seed's own that reports VIOLATION does so because the change really breaks that property too (e.g. lost bytes break C01 and C02;\n"
                "a reply for a oneway request breaks C04 and the reply discipline of C01) -- the replay oracles are per property class so that a routing-only change is\n"
                "reported by C03 alone and a client-side change by the client obligations it actually breaks.\n")
    print("wrote", len(rows), "rows")


if __name__ == "__main__":
    main()
