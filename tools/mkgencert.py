#!/usr/bin/env python3
"""mkgencert.py -- writes frag/gencert.vrs: contracts for the server dispatch and the client stubs that the repository's own generator emits for
varlink-certification/src/org.varlink.certification.varlink.  The method list, parameter names and types are read from the generator's output
(trait VarlinkInterface); the EXPECTED wire method names are computed here from the interface definition text (interface name + '.' + method name),
so a generator that maps names wrongly disagrees with this file."""
import os, re, sys
VERIF = os.path.dirname(os.path.dirname(os.path.abspath(__file__)))
sys.path.insert(0, os.path.join(VERIF, "tools"))
import vx
# usage: mkgencert.py [<interface definition, relative to the repository> <fragment name>]   (default: the certification interface -> frag/gencert.vrs)
IDL = sys.argv[1] if len(sys.argv) > 2 else "varlink-certification/src/org.varlink.certification.varlink"
FRAG = sys.argv[2] if len(sys.argv) > 2 else "gencert"
CERT = FRAG == "gencert"
GEN = "@gen:" + IDL
idl_text = open(os.path.join(vx.REPO, IDL)).read()
iface = re.search(r"^interface\s+([A-Za-z0-9.]+)", idl_text, re.M).group(1)
idl_methods = re.findall(r"^method\s+([A-Za-z0-9]+)\s*\(", idl_text, re.M)
gen = vx.generated_source(IDL)
tr = gen[gen.index("pub trait VarlinkInterface {"):]
tr = tr[:tr.index("fn call_upgraded")]
methods = []   # (fn name, Call trait suffix, [(param name, type)])
for m in re.finditer(r"fn (\w+)\(\s*&self,\s*call: &mut dyn Call_(\w+),?\s*(.*?)\)\s*->\s*varlink::Result<\(\)>;", tr, re.S):
    params = []
    for p in [x.strip() for x in m.group(3).split(",\n") if x.strip()] if "\n" in m.group(3) else [x.strip() for x in m.group(3).split(", ") if x.strip()]:
        p = p.rstrip(",")
        n, t = p.split(":", 1)
        params.append((n.strip().replace("r#", ""), t.strip()))
    methods.append((m.group(1), m.group(2), params))
assert sorted(m[1] for m in methods) == sorted(idl_methods), (methods, idl_methods)

def ty(t):
    return t.replace("varlink::StringHashMap<String>", "StringHashMap<String>").replace("varlink::StringHashSet", "StringHashSet")

def field(n):
    return "r#" + n if n in ("struct", "enum", "type") else n

out = '''// ===== frag/%(FRAG)s.vrs -- written by tools/mkgencert.py =====
// C08 slice: the code the repository's generator emits (G1: regenerated from the tree under test on every run) for ONE interface definition of the
// repository, %(IDL)s: the server dispatch `<VarlinkInterfaceProxy as varlink::Interface>::call` and the client stubs
// `<VarlinkClient as VarlinkClientInterface>::*`.
//   [C08.method-name] the trait method of the implementation that is invoked is the one whose wire name `<interface>.<Method>` is the request's method
//   [C08.args]        it is handed exactly the values the request's parameters decode to, each in its own position
//   [C08.dispatch]    missing parameters are answered with InvalidParameter("parameters"), an unknown method with MethodNotFound(method), and the
//                     dispatch satisfies the library's contract for Interface::call (one answer per request, nothing on oneway) -- the obligations
//                     the units of C01/C03/C06 ASSUME for registered interfaces, here proved for a generated instance
//   [C08.client]      every client stub builds a MethodCall whose method is `<interface>.<Method>` and whose arguments are the stub's parameters under
//                     the field names of the interface definition
// NOT covered: every other interface definition (the templates are `quote!` code), the JSON shape serde derives for the generated types, replies and errors.
// vx-retag: C03.builtin -> C08.dispatch
// vx-retag: C01.answers -> C08.dispatch

// opaque generated / library types that only pass through
#[verifier::external_body]
pub struct MyType { _p: u8 }
#[verifier::external_body]
#[verifier::reject_recursive_types(V)]
pub struct StringHashMap<V> { _p: core::marker::PhantomData<V> }
#[verifier::external_body]
pub struct StringHashSet { _p: u8 }
// R4: format!("{}", e) -> an opaque String
#[verifier::external_body]
pub fn vx_format_err(e: &serde_json::Error) -> (r: String) { unimplemented!() }

// the wire shape of the generated types is serde_derive's default for the declared field names: no `#[serde(..)]` attribute (rename, default, skip_serializing_if ..)
// alters which members are written or required.  ASSUMED input of this unit, guarded: a generator that starts emitting such attributes makes the check UNDECIDED
// (and the replay decides).
//@assume_text file=%(GEN)s count=0
serde\\s*\\(
%(CERTITEM)s''' % dict(GEN=GEN, FRAG=FRAG, IDL=IDL, CERTITEM="//@itemx file=%s kind=struct name=Test07_Args_struct\n//@enditem\n" % GEN if CERT else "")
for fn, cm, params in methods:
    out += "//@itemx file=%s kind=struct name=%s_Args\n//@sub P4 count=*\nvarlink\\s*::\\s*\nself::\n//@enditem\n" % (GEN, cm)
    out += "impl serde_json::Decode for %s_Args { uninterp spec fn parse(b: Seq<u8>) -> Option<Self>; uninterp spec fn decode(v: Value) -> Option<Self>; }\n" % cm

out += '''
// the user-implemented half (ASSUMED, as in the units of C01/C03): each method implementation answers per `answered` or returns Err.  Its PRECONDITIONS are
// the obligations of the dispatch.  T8: `&mut dyn Call_X` is the concrete `&mut Call` (rule R21 drops the unsizing cast).
pub trait VarlinkInterface {
'''
for fn, cm, params in methods:
    ps = "".join(", p%d: %s" % (k, ty(t)) for k, (n, t) in enumerate(params))
    lit = "%s_Args { %s }" % (cm, ", ".join("%s: p%d" % (field(n), k) for k, (n, t) in enumerate(params)))
    out += '''    fn %(fn)s(&self, call: &mut Call%(ps)s) -> (r: Result<()>)
        requires old(call).request is Some, !old(call).continues,
            old(call).req().unwrap().method == "%(iface)s.%(cm)s"@, // [C08.method-name]
''' % dict(fn=fn, ps=ps, iface=iface, cm=cm)
    if params:
        out += '''            old(call).req().unwrap().parameters is Some && <%(cm)s_Args as serde_json::Decode>::decode(old(call).req().unwrap().parameters.unwrap()) == Some((%(lit)s)), // [C08.args]
''' % dict(cm=cm, lit=lit)
    out += '''        ensures final(call).fin() == old(call).fin(), final(call).req() == old(call).req(),
            r is Ok ==> answered(old(call).req().unwrap(), old(call).out(), final(call).out()),
            r is Err ==> old(call).out().is_prefix_of(final(call).out());
'''
out += '''    fn call_upgraded(&self, call: &mut Call, bufreader: &mut BufReader) -> (r: Result<Vec<u8>>)
        ensures final(call).fin() == old(call).fin(),
            final(final(bufreader).inner).remaining() == final(old(bufreader).inner).remaining();
}
//@itemx file=%(GEN)s kind=struct name=VarlinkInterfaceProxy
//@enditem

// what the generated dispatch itself decides for a non-oneway request: InvalidParameter("parameters") when a method that takes parameters gets none,
// MethodNotFound naming the full method for a method the interface lacks
pub open spec fn gen_post(rq: &Request, out0: Seq<u8>, out1: Seq<u8>) -> bool {
    let m = cow_str(&rq.method);
''' % dict(GEN=GEN)
first = True
for fn, cm, params in methods:
    cond = 'm == "%s.%s"@' % (iface, cm)
    body = 'rq.parameters is None ==> wrote_invalid_parameter(out0, out1, "parameters"@)' if params else "true"
    out += "    %s %s {\n        %s\n    }" % ("if" if first else " else if", cond, body)
    first = False
out += ''' else {
        wrote_method_not_found(out0, out1, m)
    }
}

// the methods of the interface definition that take parameters
pub open spec fn takes_parameters(m: Seq<char>) -> bool {
%(takes)s
}

impl Interface for VarlinkInterfaceProxy {
    open spec fn name(&self) -> Seq<char> { "%(iface)s"@ }
    uninterp spec fn description(&self) -> Seq<char>;
    open spec fn inv(&self) -> bool { true }
    open spec fn call_post(&self, rq: &Request, out0: Seq<u8>, out1: Seq<u8>) -> bool { gen_post(rq, out0, out1) } //@twin gencert_call => open spec fn call_post(&self, rq: &Request, out0: Seq<u8>, out1: Seq<u8>) -> bool { false }

//@fn file=%(GEN)s impl="impl varlink::Interface for VarlinkInterfaceProxy" name=get_description ret=r stub="returns one string literal"
//@endfn
//@fn file=%(GEN)s impl="impl varlink::Interface for VarlinkInterfaceProxy" name=get_name ret=r
//@endfn
//@fn file=%(GEN)s impl="impl varlink::Interface for VarlinkInterfaceProxy" name=call_upgraded ret=r stub="delegates to the user implementation"
//@sub P4 count=*
varlink::
self::
//@sub T8 count=1
bufreader: &mut dyn BufRead
bufreader: &mut BufReader
//@endfn
//@fn file=%(GEN)s impl="impl varlink::Interface for VarlinkInterfaceProxy" name=call ret=r default_tag=C08.no-panic twinkey=gencert_call
//@sub P4m count=*
varlink::context!
context!
//@sub P4 count=*
varlink::
self::
//@sub R21 count=*
call as &mut dyn Call_[A-Za-z0-9]+
call
//@sub R4 count=*
format!\\("\\{\\}", e\\)
vx_format_err(&e)
//@sub R12 count=*
String::from\\(m\\)
vx_string_from(m)
//@sub R8a count=*
"parameters"\\.into\\(\\)
vx_to_string("parameters")
//@sub R10 count=*
("%(iface_re)s\\.[A-Za-z0-9]+") =>
vxk if vx_str_eq(vxk, \\1) =>
//@top
        let ghost mut vx_ip_attempts: int = 0;
//@after * ^\\s*let _ = call\\.reply_invalid_parameter\\(es\\.clone\\(\\)\\);
                            proof { vx_ip_attempts = vx_ip_attempts + 1; }
//@before * ^\\s*call\\.reply_invalid_parameter\\(vx_to_string\\("parameters"\\)\\)
                    assert(takes_parameters(cow_str(&req.method))); // [C08.dispatch] "parameters missing" is only ever the answer to a method that takes parameters
//@before * ^\\s*return Err\\(context!\\(self::ErrorKind::SerdeJsonDe\\(es\\)\\)\\);
                            assert(vx_ip_attempts == 1); // [C08.dispatch] ill-typed parameters: InvalidParameter is sent before the error return
//@endfn
}
''' % dict(GEN=GEN, iface=iface, iface_re=iface.replace(".", "\\."), takes="    " + "\n        || ".join('m == "%s.%s"@' % (iface, cm) for fn, cm, params in methods if params))

# ---- client stubs ----
out += '''
// ---- client stubs: MethodCall::new records what it was given (ASSUMED stand-in; the real MethodCall is verified in unit `client`) ----
// T8n/T8m: a parameter named `int` collides with the verifier prelude's type `int`, a raw-identifier parameter `r#struct` crashes this Verus build: the BINDING is renamed vx_int / vx_struct (the FIELD keeps its name)
// P11: the generated crate-level `Error` type (only a type parameter here) -> GenError
pub struct GenError { pub _p: u8 }
#[verifier::external_body]
pub struct ConnRef { _p: u8 }
impl Clone for ConnRef {
    #[verifier::external_body]
    fn clone(&self) -> (r: Self) ensures r == *self { unimplemented!() }
}
#[verifier::reject_recursive_types(A)]
#[verifier::reject_recursive_types(R)]
#[verifier::reject_recursive_types(E)]
pub struct MethodCall<A, R, E> { pub conn: ConnRef, pub method: Ghost<Seq<char>>, pub args: A, pub _r: core::marker::PhantomData<(R, E)> }
impl<A, R, E> MethodCall<A, R, E> {
    #[verifier::external_body]
    pub fn new(connection: ConnRef, method: &str, request: A) -> (r: Self)
        ensures r.conn == connection, r.method@ == method@, r.args == request
    { unimplemented!() }
}
pub struct VarlinkClient { pub connection: ConnRef }
'''
for fn, cm, params in methods:
    out += "#[verifier::external_body]\npub struct %s_Reply { _p: u8 }\n" % cm
out += "impl VarlinkClient {\n"
for fn, cm, params in methods:
    lit = "%s_Args { %s }" % (cm, ", ".join("%s: %s" % (field(n), {"int": "vx_int", "struct": "vx_struct"}.get(n, field(n))) for (n, t) in params))
    out += '''//@fn file=%(GEN)s impl="impl VarlinkClientInterface for VarlinkClient" name=%(fn)s ret=r default_tag=C08.no-panic
//@sub T8n count=*
(?m)^(\\s*)int: i64,
\\1vx_int: i64,
//@sub T8m count=*
\\bint\\b(?=\\s*[,}])
int: vx_int
//@sub T8o count=*
(?m)^(\\s*)r#struct: Test07_Args_struct,
\\1vx_struct: Test07_Args_struct,
//@sub T8p count=*
\\br#struct\\b(?=\\s*[,}])
r#struct: vx_struct
//@sub P4 count=*
varlink\\s*::\\s*
self::
//@sub P11 count=*
\\bError\\b
GenError
//@spec
        ensures
            r.method@ == "%(iface)s.%(cm)s"@, // [C08.client]
            r.args == (%(lit)s), // [C08.client]
            r.conn == old(self).connection,
//@endfn
''' % dict(GEN=GEN, fn=fn, iface=iface, cm=cm, lit=lit)
out += "}\n"
prim = {"String", "i64", "f64", "bool", "serde_json::Value"}
if not CERT:
    for fn, cm, params in methods:
        for n, t in params:
            assert t in prim, "parameter type %s of %s is not a primitive: this instance needs its type items extracted" % (t, cm)
out = out.replace("twinkey=gencert_call", "twinkey=%s_call" % FRAG).replace("//@twin gencert_call", "//@twin %s_call" % FRAG)
open(os.path.join(VERIF, "frag", FRAG + ".vrs"), "w").write(out)
unit = os.path.join(VERIF, "units", FRAG + ".vrs")
if not os.path.exists(unit):
    open(unit, "w").write(open(os.path.join(VERIF, "units", "gencert.vrs")).read().replace("frag/gencert.vrs", "frag/%s.vrs" % FRAG)
                          .replace("unit `gencert`", "unit `%s`" % FRAG).replace("org.varlink.certification", iface))
print("wrote frag/%s.vrs:" % FRAG, len(methods), "methods")
