#!/usr/bin/env python3
"""mkcertfrag.py -- (re)writes the second half of frag/cert.vrs (call-object stand-in, check_call_*! macros, the 12 step methods).
The 12 //@fn blocks differ only in step names, kept statement counts and call mode; generating them avoids copy/paste slips."""
import os
VERIF = os.path.dirname(os.path.dirname(os.path.abspath(__file__)))
P = os.path.join(VERIF, "frag", "cert.vrs")
MARK = "// ======== second half (written by tools/mkcertfrag.py) ========\n"
MAIN = "varlink-certification/src/main.rs"
GEN = "@gen:varlink-certification/src/org.varlink.certification.varlink"
# (fn, step, next, statements kept, mode, Args type)
steps = [("test%02d" % i, "Test%02d" % i, "Test%02d" % (i + 1), 2, "normal") for i in range(1, 11)] + [("test11", "Test11", "End", 4, "oneway"), ("end", "End", "End", 2, "normal")]
keep = {"test08": 5, "test09": 6, "test10": 2, "test11": 4}
mode = {"test10": "more", "test11": "oneway"}

out = MARK + '''
// ---- the call object of a step.  ASSUMED: the generated per-method traits `Call_TestNN: VarlinkCallError: varlink::CallTrait` (emitted by varlink_generator at
//      build time) flattened into ONE stand-in trait (T8c: this Verus build cannot encode `dyn Sub` of a trait with a supertrait, so `&mut dyn Call_TestNN`
//      becomes `&mut dyn VarlinkCallError`).  `log()` is the sequence of replies sent through this call object, `req()` the request being served. ----
pub mod io {
    pub struct Error { pub _p: u8 }
    pub type Result<T> = std::result::Result<T, Error>;
}
pub mod serde_json {
    use super::*;
    #[verifier::external_body]
    pub struct Value { _p: u8 }
    impl Clone for Value {
        #[verifier::external_body]
        fn clone(&self) -> (r: Self) ensures r == *self { unimplemented!() }
    }
    pub struct Error { pub _p: u8 }
    // from_value::<T>: an uninterpreted partial function of the value
    pub uninterp spec fn decode_any<T>(v: Value) -> Option<T>;
    #[verifier::external_body]
    pub fn from_value<T>(v: Value) -> (r: std::result::Result<T, Error>)
        ensures match r { Ok(t) => decode_any::<T>(v) == Some(t), Err(_) => decode_any::<T>(v) is None }
    { unimplemented!() }
    #[verifier::external_body]
    pub fn to_value<T>(t: T) -> (r: std::result::Result<Value, Error>) { unimplemented!() }
}
pub mod varlink {
    use super::*;
    pub struct Error { pub _p: u8 }
    pub type Result<T> = std::result::Result<T, Error>;
    #[verifier::external_body]
    pub struct StringHashSet { _p: u8 }
    impl StringHashSet {
        #[verifier::external_body]
        pub fn new() -> (r: Self) { unimplemented!() }
        #[verifier::external_body]
        pub fn insert(&mut self, k: String) -> (r: bool) { unimplemented!() }
    }
    // Request as declared in varlink/src/lib.rs (same fields; proved against the real declaration in the units of C01-C07)
    pub struct Request<'a> {
        pub more: Option<bool>,
        pub oneway: Option<bool>,
        pub upgrade: Option<bool>,
        pub method: Cow<'a, str>,
        pub parameters: Option<serde_json::Value>,
    }
}
use varlink::StringHashSet;
pub uninterp spec fn cow_view<'a, B: ToOwned + ?Sized>(c: &Cow<'a, B>) -> &'a B;
pub open spec fn cow_str<'a>(c: &Cow<'a, str>) -> Seq<char> { cow_view(c)@ }
// R3: `cow == E` -> vx_cow_eq; R6: `E.into()` to Cow<str> -> vx_into_cow; R8: "lit".into() to String -> vx_str_to_string (above)
#[verifier::external_body]
pub fn vx_cow_eq<'a>(c: &Cow<'a, str>, lit: &str) -> (b: bool) ensures b == (cow_str(c) == lit@) { unimplemented!() }
#[verifier::external_body]
pub fn vx_into_cow(s: &str) -> (r: Cow<'static, str>) ensures cow_str(&r) == s@ { unimplemented!() }
// T10: varlink::map_context!() -> a closure into the unit error type
#[verifier::external_body]
pub fn vx_map_ctx<E>(e: E) -> (r: varlink::Error) { unimplemented!() }
macro_rules! map_context { () => { |e| vx_map_ctx(e) } }
// R40: `wants == w` on a generated (derive(PartialEq)) type -> vx_eq(&wants, &w).  `compared_equal(w)` is a stable fact: w was compared with the value the
// step expects and found equal (ASSUMED: the derived == is structural equality).
pub uninterp spec fn compared_equal<T>(w: T) -> bool;
#[verifier::external_body]
pub fn vx_eq<T>(a: &T, b: &T) -> (r: bool) ensures r ==> compared_equal(*b) { unimplemented!() }

pub enum Outcome { ClientIdError, CertificationError, Other }
pub trait VarlinkCallError {
    spec fn log(&self) -> Seq<Outcome>;
    spec fn req(&self) -> Option<varlink::Request<'static>>;
    fn get_request(&self) -> (r: Option<&varlink::Request<'static>>)
        ensures match r { Some(q) => self.req() == Some(*q), None => self.req() is None };
    fn reply_client_id_error(&mut self) -> (r: varlink::Result<()>)
        ensures final(self).log() == old(self).log().push(Outcome::ClientIdError), final(self).req() == old(self).req();
    fn reply_certification_error(&mut self, wants: serde_json::Value, got: serde_json::Value) -> (r: varlink::Result<()>)
        ensures final(self).log() == old(self).log().push(Outcome::CertificationError), final(self).req() == old(self).req();
}
// R41: the constant std::f64::consts::PI (not supported by this Verus build) -> an opaque f64
#[verifier::external_body]
pub fn vx_pi() -> (r: f64) { unimplemented!() }
// opaque: values built by new_mytype() (280 lines of literals) are only passed on
#[verifier::external_body]
pub struct MyType { _p: u8 }
#[verifier::external_body]
pub fn new_mytype() -> (r: io::Result<MyType>) { unimplemented!() }

// ---- the argument structs of the steps, as the repository's generator emits them for the interface definition (G1, regenerated on every run) ----
'''
for a in ["Test07_Args_struct"] + ["Test%02d_Args" % i for i in range(1, 12)] + ["End_Args"]:
    out += "//@itemx file=%s kind=struct name=%s\n//@sub P4 count=*\nvarlink\\s*::\\s*StringHashMap\\s*<\\s*String\\s*>\nStringHashMap<String>\n//@sub P5 count=*\nvarlink\\s*::\\s*StringHashSet\nvarlink::StringHashSet\n//@enditem\n" % (GEN, a)
out += '''
// ---- the request checks, verbatim from main.rs after R39 (`Some(&P)` / `ref x`: reference patterns written in match-ergonomics form), R3, R6, R40, T10 ----
'''
for m, n_ref in (("check_call_normal", 4), ("check_call_more", 3), ("check_call_oneway", 3)):
    out += '''//@itemx file=%s kind=macro_rules name=%s
//@sub R39a count=*
Some\\(&varlink::Request \\{
Some(varlink::Request {
//@sub R39b count=*
method: ref m,
method: m,
//@sub R39c count=*
parameters: Some\\(ref p\\),
parameters: Some(p),
//@sub R3 count=*
if m == \\$test =>
if vx_cow_eq(m, $test) =>
//@sub R40 count=*
\\bwants == w\\b
vx_eq(&wants, &w)
//@sub T10 count=*
varlink::map_context!\\(\\)
map_context!()
//@sub R6 count=*
method: \\$test\\.into\\(\\),
method: vx_into_cow($test),
//@enditem
''' % (MAIN, m)
out += '''
// what the request must look like for a step's success path to be reachable
pub open spec fn mode_ok(q: Option<varlink::Request<'static>>, test: Seq<char>, more: bool, oneway: bool) -> bool {
    q matches Some(r) && (r.more == Some(true)) == more && (r.oneway == Some(true)) == oneway && r.upgrade != Some(true) && cow_str(&r.method) == test
}
pub open spec fn value_ok<T>(q: Option<varlink::Request<'static>>) -> bool {
    q matches Some(r) && r.parameters matches Some(p) && serde_json::decode_any::<T>(p) matches Some(w) && compared_equal(w)
}
// T12: everything after the request check of a step method is replaced by this opaque continuation: it may send anything through `call`, but it can
// only be REACHED with a request of the step's own call mode and method name [C19.mode] whose parameters decoded to the step's argument type and
// compared equal to the value the step expects [C19.value] (the dropped text is checked not to mention `self`, so it cannot touch the step table)
#[verifier::external_body]
pub fn vx_success<T>(call: &mut dyn VarlinkCallError, Ghost(test): Ghost<Seq<char>>, Ghost(more): Ghost<bool>, Ghost(oneway): Ghost<bool>) -> (r: varlink::Result<()>)
    requires
        mode_ok(old(call).req(), test, more, oneway), // [C19.mode]
        value_ok::<T>(old(call).req()), // [C19.value]
{ unimplemented!() }

//@item file=%(MAIN)s kind=struct name=CertInterface
impl CertInterface {
    pub open spec fn found(&self) -> Map<Seq<char>, Seq<char>> { steps(self.client_ids.v.acq@) }   // the table as found by the last lock acquisition
    pub open spec fn now(&self) -> Map<Seq<char>, Seq<char>> { steps(self.client_ids.v.v) }        // the table as this thread left it

//@fn file=%(MAIN)s impl="impl CertInterface" name=check_client_id ret=r default_tag=C19.no-panic
//@sub T8 count=1
\\(&self,
(&mut self,
//@spec
        ensures
            step_result(final(self).found(), final(self).now(), client_id@, test@, next_test@, r), // [C19.step]
//@endfn

//@fn file=%(MAIN)s impl="impl CertInterface" name=new_client_id ret=r default_tag=C19.no-panic
//@sub T8 count=1
\\(&self\\)
(&mut self)
//@spec
        ensures
            final(self).now() =~= final(self).found().insert(r@, "Test01"@), // [C19.own-id]
//@endfn
''' % dict(MAIN=MAIN)
for fn, a, b, _, _ in steps:
    k = keep.get(fn, 2)
    md = mode.get(fn, "normal")
    args = "End_Args" if fn == "end" else a + "_Args"
    out += '''
//@fn file=%(MAIN)s impl="impl org_varlink_certification::VarlinkInterface for CertInterface" name=%(fn)s ret=r default_tag=C19.no-panic
//@keep_stmts %(k)d
vx_success::<%(args)s>(call, Ghost("org.varlink.certification.%(a)s"@), Ghost(%(more)s), Ghost(%(oneway)s))
//@macro format
vx_fmt()
//@sub T8 count=1
&self,
&mut self,
//@sub T8c count=1
&mut dyn Call_\\w+
&mut dyn VarlinkCallError
//@sub R8 count=*
("[A-Za-z ]+")\\.into\\(\\)
vx_str_to_string(\\1)
//@sub T10 count=*
varlink::map_context!\\(\\)
map_context!()
//@sub R41 count=*
std::f64::consts::PI
vx_pi()
//@spec
        requires
            old(call).req() is Some,   // the generated dispatch only calls a step with the request it is serving (ASSUMED)
        ensures
            (final(self).found().contains_key(client_id@) && final(self).found()[client_id@] == "%(a)s"@)
                || final(call).log() == old(call).log().push(Outcome::ClientIdError), // [C19.gate]
            final(call).log() != old(call).log().push(Outcome::ClientIdError)
                ==> final(self).now().contains_key(client_id@) && final(self).now()[client_id@] == "%(b)s"@, // [C19.gate]
//@endfn
''' % dict(MAIN=MAIN, fn=fn, a=a, b=b, k=k, args=args, more="true" if md == "more" else "false", oneway="true" if md == "oneway" else "false")
out += "}\n"
s = open(P).read()
i = s.find(MARK)
if i < 0:
    i = s.index("// ---- the generated per-method call traits")
open(P, "w").write(s[:i] + out)
print("wrote", P)
