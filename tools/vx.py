#!/usr/bin/env python3
"""vx.py -- mechanical extraction of real Rust items from /repo into single-file Verus units.

A *unit template* (units/<unit>.vrs) is a Verus source file containing directives (lines starting with
`//@`).  Everything that is not a directive is copied through unchanged (hand written prelude: assumed
contracts of std/serde, ghost vocabulary, lemmas).  Directives pull item text out of /repo:

  //@include <path relative to /verif>            textual include of another template fragment
  //@item file=<f> kind=<struct|enum|trait|type|macro_rules|impl> name=<n> [impl="<hdr>"]
        emit the item verbatim after T1 (attrs/doc comments dropped), T2 (pub), T3 (auto traits)
  //@fn file=<f> impl="<normalised impl header prefix>|-" name=<n> [ret=<id>] [twin=skip:<why>] [default_tag=<Cxx.tag>]
  //@attr            lines: attributes put in front of the fn
  //@spec            lines: requires/ensures/decreases inserted between signature and body (T4)
  //@sub <Rn> [count=<k>|count=*]   two lines: python regex, replacement; applied to signature+body (T6)
  //@loop <k>        lines: invariant/decreases/ensures inserted on the k-th loop header of the body (T5)
  //@before <k> <regex>   lines inserted before the k-th body line matching regex (T5, ghost only)
  //@after  <k> <regex>   lines inserted after it
  //@top             lines inserted at the very start of the body (ghost only: `broadcast use`, `let ghost`)
  //@sig             lines: replacement signature up to (not including) the body brace; the original
                     signature's parameter names must all occur in it (logged as T8)
  //@endfn
  //@closure file=<f> fn=<enclosing fn> impl=<hdr|-> open="<text that opens the closure>" name=<n>
        like //@fn, but the body is the block of the closure found after `open` (T9); needs //@sig.

Nothing but these rules touches the extracted text.  Every rule application is logged and lands in
the evidence file.  The text between a function's braces is copied byte for byte before the rules.
"""
import hashlib
import json
import os
import re
import sys

REPO = os.environ.get("VX_REPO", "/repo")
VERIF = os.path.dirname(os.path.dirname(os.path.abspath(__file__)))


class ExtractError(Exception):
    """anchor lost / item not found / directive malformed -> UNDECIDED, never a violation"""


# --------------------------------------------------------------------------------------------
# Rust lexer: enough to skip comments, strings, chars, lifetimes and to match braces.
# --------------------------------------------------------------------------------------------
def lex(src):
    """yield (kind, start, end) with kind in {ws, lcomment, bcomment, str, char, lifetime, ident, num, punct}"""
    i, n = 0, len(src)
    out = []
    while i < n:
        c = src[i]
        if c.isspace():
            j = i + 1
            while j < n and src[j].isspace():
                j += 1
            out.append(("ws", i, j))
            i = j
        elif src.startswith("//", i):
            j = src.find("\n", i)
            j = n if j < 0 else j
            out.append(("lcomment", i, j))
            i = j
        elif src.startswith("/*", i):
            depth, j = 1, i + 2
            while j < n and depth:
                if src.startswith("/*", j):
                    depth += 1
                    j += 2
                elif src.startswith("*/", j):
                    depth -= 1
                    j += 2
                else:
                    j += 1
            out.append(("bcomment", i, j))
            i = j
        elif c == '"' or (c in "br" and re.match(r'(b?r#*"|b")', src[i:i + 12])):
            m = re.match(r'(b?)(r(#*))?"', src[i:])
            if m.group(2) is not None:
                hashes = m.group(3)
                end = src.find('"' + hashes, i + m.end())
                if end < 0:
                    raise ExtractError("unterminated raw string")
                j = end + 1 + len(hashes)
            else:
                j = i + m.end()
                while j < n and src[j] != '"':
                    j += 2 if src[j] == "\\" else 1
                j += 1
            out.append(("str", i, j))
            i = j
        elif c == "'" or (c == "b" and src.startswith("b'", i)):
            k = i + (2 if c == "b" else 1)
            # char literal or lifetime?
            m = re.match(r"(\\(x[0-9a-fA-F]{2}|u\{[0-9a-fA-F_]+\}|.)|[^\\'])'", src[k:])
            if m:
                j = k + m.end()
                out.append(("char", i, j))
            else:
                m = re.match(r"[A-Za-z_][A-Za-z0-9_]*", src[k:])
                j = k + (m.end() if m else 0)
                out.append(("lifetime", i, j))
            i = j
        elif c.isalpha() or c == "_":
            m = re.match(r"(r#)?[A-Za-z_][A-Za-z0-9_]*", src[i:])
            j = i + m.end()
            out.append(("ident", i, j))
            i = j
        elif c.isdigit():
            m = re.match(r"[0-9][0-9A-Za-z_]*(\.[0-9][0-9A-Za-z_]*)?", src[i:])
            j = i + m.end()
            out.append(("num", i, j))
            i = j
        else:
            out.append(("punct", i, i + 1))
            i += 1
    return out


CODE = ("ident", "num", "punct", "str", "char", "lifetime")


_GEN_CACHE = {}


def generated_source(idl_rel):
    """G1: `file=@gen:<idl>` -- the Rust code the repository's own generator (varlink_generator, built from the tree under test) emits for an
    interface definition of the tree under test; regenerated on every run (this is what build.rs includes into the crate that uses it)."""
    if idl_rel in _GEN_CACHE:
        return _GEN_CACHE[idl_rel]
    import subprocess
    build = os.environ.get("VX_BUILD") or os.path.join(VERIF, "build")
    tdir = os.path.join(build, "gen-target")
    idl = os.path.join(REPO, idl_rel)
    if not os.path.exists(idl):
        raise ExtractError("interface definition %s missing" % idl_rel)
    env = dict(os.environ, CARGO_NET_OFFLINE="true", CARGO_TARGET_DIR=tdir)
    try:
        b = subprocess.run(["cargo", "build", "--release", "--offline", "-q", "-p", "varlink_generator", "--bin", "varlink-rust-generator"],
                           cwd=REPO, env=env, capture_output=True, text=True, timeout=1500)
        if b.returncode != 0:
            raise ExtractError("the generator of the tree under test does not build: " + b.stderr[-300:])
        g = subprocess.run([os.path.join(tdir, "release", "varlink-rust-generator"), idl], capture_output=True, text=True, timeout=120)
    except subprocess.TimeoutExpired:
        raise ExtractError("generator build / run timed out")
    if g.returncode != 0 or not g.stdout.strip():
        raise ExtractError("the generator failed on %s: %s" % (idl_rel, g.stderr[-300:]))
    # `r#name` and `name` are the same identifier unless `name` is a keyword: the prefix is dropped for non-keywords
    kw = {"as", "break", "const", "continue", "crate", "else", "enum", "extern", "false", "fn", "for", "if", "impl", "in", "let", "loop", "match", "mod",
          "move", "mut", "pub", "ref", "return", "self", "Self", "static", "struct", "super", "trait", "true", "type", "unsafe", "use", "where", "while",
          "async", "await", "dyn", "abstract", "become", "box", "do", "final", "macro", "override", "priv", "typeof", "unsized", "virtual", "yield", "try", "gen"}
    text = re.sub(r"\br#([A-Za-z_][A-Za-z0-9_]*)", lambda m: m.group(0) if m.group(1) in kw else m.group(1), g.stdout)
    # the generator prints one token stream on a single line; rustfmt (same tokens, line structure only) makes line anchors usable
    try:
        f = subprocess.run(["rustfmt", "--edition", "2018", "--emit", "stdout"], input=text, capture_output=True, text=True, timeout=120)
        if f.returncode == 0 and f.stdout.strip():
            text = f.stdout
    except (OSError, subprocess.TimeoutExpired):
        pass
    _GEN_CACHE[idl_rel] = text
    return text


class Src:
    def __init__(self, path):
        self.path = path
        if path.startswith("@gen:"):
            self.text = generated_source(path[len("@gen:"):])
        else:
            with open(os.path.join(REPO, path), encoding="utf-8") as f:
                self.text = f.read()
        self.toks = lex(self.text)
        self.code = [t for t in self.toks if t[0] in CODE]

    def t(self, tok):
        return self.text[tok[1]:tok[2]]

    def line_of(self, pos):
        return self.text.count("\n", 0, pos) + 1

    def match_brace(self, ci):
        """ci indexes self.code at an opening bracket; return index of the matching closer"""
        opener = self.t(self.code[ci])
        closer = {"{": "}", "(": ")", "[": "]"}[opener]
        depth = 0
        for k in range(ci, len(self.code)):
            if self.code[k][0] != "punct":
                continue
            s = self.t(self.code[k])
            if s == opener:
                depth += 1
            elif s == closer:
                depth -= 1
                if depth == 0:
                    return k
        raise ExtractError("unbalanced %s in %s" % (opener, self.path))

    def norm(self, a, b):
        """whitespace-normalised code text between byte offsets"""
        toks = [self.t(t) for t in self.code if a <= t[1] and t[2] <= b]
        return norm_join(toks)

    # ---- item search -------------------------------------------------------------------
    def impl_blocks(self, lo=0, hi=None):
        """yield (header_norm, ci_open, ci_close) for every `impl`/`trait` block in code range"""
        hi = len(self.code) if hi is None else hi
        k = lo
        while k < hi:
            tok = self.code[k]
            s = self.t(tok)
            if tok[0] == "ident" and s in ("impl", "trait") and self._item_start(k):
                j = k
                while j < hi and self.t(self.code[j]) not in ("{", ";"):
                    j += 1
                if j >= hi or self.t(self.code[j]) == ";":
                    k = j + 1
                    continue
                close = self.match_brace(j)
                yield (norm_join([self.t(t) for t in self.code[k:j]]), k, j, close)
                k = j + 1   # keep scanning inside: items may be nested (e.g. a Visitor impl inside fn deserialize)
            elif tok[0] == "punct" and s == "{":
                # descend into mods / fns: items may be nested (e.g. Visitor impl inside fn deserialize)
                k += 1
            else:
                k += 1

    def _item_start(self, k):
        """`impl` in `-> impl Trait` is not an item; an item keyword follows `}`/`;`/`]`/start or visibility"""
        if k == 0:
            return True
        p = self.t(self.code[k - 1])
        return p in ("}", ";", "]", "{", "pub", ")", "unsafe")

    def find_impl(self, header):
        want = norm_join(lex_words(header))
        hits = [b for b in self.impl_blocks() if b[0].startswith(want)]
        if len(hits) != 1:
            raise ExtractError("impl header %r: %d matches in %s" % (header, len(hits), self.path))
        return hits[0]

    def find_fn(self, impl_header, name, lo=None, hi=None):
        if impl_header and impl_header != "-":
            _, _, o, c = self.find_impl(impl_header)
            lo, hi, depth0 = o + 1, c, None
        else:
            lo, hi = lo or 0, hi or len(self.code)
        hits = []
        depth = 0
        for k in range(lo, hi - 1):
            s = self.t(self.code[k])
            if self.code[k][0] == "punct":
                if s == "{":
                    depth += 1
                elif s == "}":
                    depth -= 1
            if depth == 0 and s == "fn" and self.code[k][0] == "ident" and self.t(self.code[k + 1]) == name:
                hits.append(k)
        if len(hits) > 1:
            # T1c: of several cfg-alternatives of one function the unix / linux one is the verified text
            def excluded(k):
                s0 = k
                while s0 > 0 and self.t(self.code[s0 - 1]) in ("pub", "unsafe", "const", "async"):
                    s0 -= 1
                # walk back over directly preceding attributes `#[...]`
                txt = ""
                e = s0
                while e >= 2 and self.t(self.code[e - 1]) == "]":
                    d, b = 0, e - 1
                    while b >= 0:
                        t = self.t(self.code[b])
                        if t == "]":
                            d += 1
                        elif t == "[":
                            d -= 1
                            if d == 0:
                                break
                        b -= 1
                    if b < 1 or self.t(self.code[b - 1]) != "#":
                        break
                    txt += self.text[self.code[b - 1][1]:self.code[e - 1][2]]
                    e = b - 1
                flat = "".join(txt.split())
                return ("cfg(windows)" in flat) or ("cfg(not(any(target_os=\"linux\"" in flat) or ("cfg(not(unix))" in flat)
            kept = [k for k in hits if not excluded(k)]
            if len(kept) == 1:
                hits = kept
        if len(hits) != 1:
            raise ExtractError("fn %s in %r: %d matches in %s" % (name, impl_header, len(hits), self.path))
        k = hits[0]
        j = k
        while self.t(self.code[j]) not in ("{", ";"):
            if self.t(self.code[j]) in ("(", "["):
                j = self.match_brace(j)
            j += 1
        if self.t(self.code[j]) == ";":
            raise ExtractError("fn %s has no body" % name)
        close = self.match_brace(j)
        # visibility tokens before `fn`
        s = k
        while s > lo and self.t(self.code[s - 1]) in ("pub", "unsafe", "const", "async"):
            s -= 1
        sig_start = self.code[k][1]
        return {
            "sig": self.text[sig_start:self.code[j][1]],
            "body": self.text[self.code[j][1]:self.code[close][2]],
            "lines": (self.line_of(sig_start), self.line_of(self.code[close][2])),
            "ci": (k, j, close),
        }

    def find_item(self, kind, name, impl_header=None):
        """struct/enum/trait/type/macro_rules/impl item text including its attributes-free header"""
        if kind == "impl":
            hdr, k, o, c = self.find_impl(name)
            return self.text[self.code[k][1]:self.code[c][2]], (self.line_of(self.code[k][1]), self.line_of(self.code[c][2]))
        hits = []
        for k in range(len(self.code) - 2):
            s = self.t(self.code[k])
            if kind == "macro_rules":
                if s == "macro_rules" and self.t(self.code[k + 1]) == "!" and self.t(self.code[k + 2]) == name:
                    hits.append(k)
            elif s == kind and self.code[k][0] == "ident" and self.t(self.code[k + 1]) == name and self._item_start(k):
                hits.append(k)
        if len(hits) != 1:
            raise ExtractError("%s %s: %d matches in %s" % (kind, name, len(hits), self.path))
        k = hits[0]
        j = k
        while self.t(self.code[j]) not in ("{", ";", "("):
            j += 1
        if self.t(self.code[j]) == "(" and kind == "struct":  # tuple struct ... ;
            j = self.match_brace(j)
            while self.t(self.code[j]) != ";":
                j += 1
            end = j
        elif self.t(self.code[j]) == ";":
            end = j
        else:
            if self.t(self.code[j]) == "(":
                j = self.match_brace(j)
                while self.t(self.code[j]) != "{":
                    j += 1
            end = self.match_brace(j)
        a, b = self.code[k][1], self.code[end][2]
        return self.text[a:b], (self.line_of(a), self.line_of(b))


def lex_words(s):
    return [s[a:b] for (k, a, b) in lex(s) if k in CODE]


def norm_join(toks):
    out = ""
    for t in toks:
        if out and (out[-1].isalnum() or out[-1] == "_") and (t[0].isalnum() or t[0] == "_" or t[0] == "'"):
            out += " "
        out += t
    return out


# --------------------------------------------------------------------------------------------
# transformations on extracted text
# --------------------------------------------------------------------------------------------
def strip_attrs_and_docs(text, log):
    """T1: drop outer attributes `#[...]`, doc comments and plain comments are kept as they are harmless;
    doc comments (///, //!) are dropped because rustc turns them into attributes."""
    toks = lex(text)
    out = []
    i = 0
    n_attr = n_doc = n_cfg = 0
    code_idx = [k for k, t in enumerate(toks) if t[0] in CODE]
    k = 0
    while k < len(toks):
        kind, a, b = toks[k]
        s = text[a:b]
        if kind == "lcomment" and (s.startswith("///") or s.startswith("//!")):
            n_doc += 1
            k += 1
            continue
        if kind == "punct" and s == "#":
            # attribute: # [ ... ]  or # ! [ ... ]
            j = k + 1
            while j < len(toks) and toks[j][0] == "ws":
                j += 1
            if j < len(toks) and text[toks[j][1]:toks[j][2]] == "!":
                j += 1
            if j < len(toks) and text[toks[j][1]:toks[j][2]] == "[":
                depth = 0
                while j < len(toks):
                    t = text[toks[j][1]:toks[j][2]]
                    if toks[j][0] == "punct" and t == "[":
                        depth += 1
                    elif toks[j][0] == "punct" and t == "]":
                        depth -= 1
                        if depth == 0:
                            break
                    j += 1
                attr_text = "".join(text[toks[x][1]:toks[x][2]] for x in range(k, j + 1)).replace(" ", "")
                n_attr += 1
                k = j + 1
                if attr_text in ("#[cfg(windows)]", '#[cfg(not(any(target_os="linux",target_os="android")))]'):
                    # T1c: this sandbox verifies the unix build: the annotated statement / block / item is dropped with its attribute
                    while k < len(toks) and toks[k][0] in ("ws", "lcomment", "bcomment"):
                        k += 1
                    depth = 0
                    while k < len(toks):
                        t = text[toks[k][1]:toks[k][2]]
                        if toks[k][0] == "punct" and t in "{([":
                            depth += 1
                        elif toks[k][0] == "punct" and t in "})]":
                            depth -= 1
                            if depth == 0 and t == "}":
                                k += 1
                                break
                        elif toks[k][0] == "punct" and t == ";" and depth == 0:
                            k += 1
                            break
                        k += 1
                    n_cfg += 1
                continue
        out.append(s)
        k += 1
    if n_attr or n_doc:
        log.append({"rule": "T1", "attrs_dropped": n_attr, "doc_comments_dropped": n_doc, "cfg_windows_code_dropped": n_cfg})
    return "".join(out)


AUTO = r"(?:Send|Sync|'static|'a)"


def drop_auto_traits(text, log):
    """T3: `dyn X + Send + Sync + 'static` -> `dyn X`"""
    pat = re.compile(r"(dyn\s+[A-Za-z_:][A-Za-z0-9_:<>]*?)((?:\s*\+\s*" + AUTO + r")+)")
    new, n = pat.subn(r"\1", text)
    if n:
        log.append({"rule": "T3", "count": n})
    return new


def make_pub(text, kind, log):
    """T2: item and its named fields become pub"""
    n = 0
    if kind in ("struct",):
        m = re.search(r"\{", text)
        if m:
            head, body = text[:m.end()], text[m.end():]

            def fld(mm):
                nonlocal n
                if mm.group(2).startswith("pub"):
                    return mm.group(0)
                n += 1
                return mm.group(1) + "pub " + mm.group(2)
            body = re.sub(r"(^\s*)((?:pub(?:\([a-z]+\))?\s+)?[A-Za-z_][A-Za-z0-9_]*\s*:)", fld, body, flags=re.M)
            body = re.sub(r"pub\((?:crate|super)\)\s+", "pub ", body)
            text = head + body
    if n:
        log.append({"rule": "T2", "fields_made_pub": n})
    return "pub " + text


def named_return(sig, ret):
    """T4: `-> T` becomes `-> (ret: T)`; returns new signature"""
    depth = 0
    i = 0
    arrow = None
    toks = lex(sig)
    for kind, a, b in toks:
        s = sig[a:b]
        if kind == "punct":
            if s in "([":
                depth += 1
            elif s in ")]":
                depth -= 1
            elif s == "-" and depth == 0 and sig[a:a + 2] == "->":
                arrow = a
                break
    if arrow is None:
        return sig
    rest = sig[arrow + 2:]
    m = re.search(r"\bwhere\b", rest)
    ty, tail = (rest[:m.start()], rest[m.start():]) if m else (rest, "")
    return sig[:arrow] + "-> (" + ret + ": " + ty.strip() + ")\n    " + tail


GHOST_FORBIDDEN = re.compile(r"\b(assume|admit)\s*\(|external_body|assume_specification|#\[verifier::external")


def check_injection(text, where):
    if GHOST_FORBIDDEN.search(text):
        raise ExtractError("injection at %s contains a forbidden construct (assume/admit/external)" % where)


def loop_positions(body):
    """byte offsets of the opening brace of every loop body, in source order"""
    toks = [t for t in lex(body) if t[0] in CODE]
    res = []
    for k, (kind, a, b) in enumerate(toks):
        s = body[a:b]
        if kind == "ident" and s in ("loop", "while", "for"):
            # `for<'a>` (HRTB) is not a loop
            if s == "for" and k + 1 < len(toks) and body[toks[k + 1][1]:toks[k + 1][2]] == "<":
                continue
            depth = 0
            for kk in range(k + 1, len(toks)):
                t = body[toks[kk][1]:toks[kk][2]]
                if toks[kk][0] != "punct":
                    continue
                if t in "([":
                    depth += 1
                elif t in ")]":
                    depth -= 1
                elif t == "{" and depth == 0:
                    res.append(toks[kk][1])
                    break
    return res


def apply_fn_rules(fn, d, log):
    sig, body = fn["sig"], fn["body"]
    body = strip_attrs_and_docs(body, log)
    sig = drop_auto_traits(sig, log)
    body = drop_auto_traits(body, log)
    # T12: prefix verification -- the first n top-level statements are kept, the rest of the body is replaced by an opaque continuation
    # that gets only the listed arguments; refused when the dropped statements mention `self` (they could touch state the prefix decided on)
    if d.get("keep_stmts"):
        toks = [t for t in lex(body) if t[0] in CODE]
        depth, count, cut_at = 0, 0, None
        for k, (kind, a, b) in enumerate(toks):
            t = body[a:b]
            if kind != "punct":
                continue
            if t in "([{":
                depth += 1
            elif t in ")]}":
                depth -= 1
                if t == "}" and depth == 1:
                    nxt = body[toks[k + 1][1]:toks[k + 1][2]] if k + 1 < len(toks) else ""
                    if nxt not in ("else", ".", "?", ";", ")", ","):
                        count += 1
            elif t == ";" and depth == 1:
                count += 1
            if count == d["keep_stmts"]["n"] and cut_at is None and depth == 1:
                cut_at = b
                break
        if cut_at is None:
            raise ExtractError("keep_stmts: %s has fewer than %d top-level statements" % (d["name"], d["keep_stmts"]["n"]))
        dropped = body[cut_at:body.rstrip().rfind("}")]
        if any(body[cut_at:][a:b] == "self" for (kind, a, b) in lex(body[cut_at:]) if kind == "ident"):
            raise ExtractError("keep_stmts: the dropped part of %s mentions `self`" % d["name"])
        body = body[:cut_at] + "\n        " + d["keep_stmts"]["repl"] + "\n    }"
        log.append({"rule": "T12/keep_stmts", "fn": d["name"], "kept": d["keep_stmts"]["n"], "dropped_chars": len(dropped)})
    # R4g: every invocation `name!( .. )` of a listed macro is replaced by one expression (token-balanced, so string contents do not matter)
    for mac in d.get("macros", []):
        n = 0
        while True:
            toks = [t for t in lex(body) if t[0] in CODE]
            hit = None
            for k in range(len(toks) - 2):
                if (toks[k][0] == "ident" and body[toks[k][1]:toks[k][2]] == mac["name"] and body[toks[k + 1][1]:toks[k + 1][2]] == "!"
                        and body[toks[k + 2][1]:toks[k + 2][2]] in ("(", "[", "{")):
                    hit = k
                    break
            if hit is None:
                break
            depth, end = 0, None
            for k in range(hit + 2, len(toks)):
                t = body[toks[k][1]:toks[k][2]]
                if toks[k][0] != "punct":
                    continue
                if t in "([{":
                    depth += 1
                elif t in ")]}":
                    depth -= 1
                    if depth == 0:
                        end = toks[k][2]
                        break
            if end is None:
                raise ExtractError("macro %s!: unbalanced invocation in %s" % (mac["name"], d["name"]))
            body = body[:toks[hit][1]] + mac["repl"] + body[end:]
            n += 1
        log.append({"rule": "R4g/macro", "fn": d["name"], "macro": mac["name"], "count": n})
    # T9 (at the original site): a closure that is verified separately is replaced by an opaque value
    for cut in d.get("cuts", []):
        toks = [t for t in lex(body) if t[0] in CODE]
        want = lex_words(cut["open"])
        hit = None
        for k in range(len(toks) - len(want)):
            if [body[t[1]:t[2]] for t in toks[k:k + len(want)]] == want:
                if hit is not None:
                    raise ExtractError("cut opener %r not unique in %s" % (cut["open"], d["name"]))
                hit = k
        if hit is None:
            raise ExtractError("cut opener %r lost in %s" % (cut["open"], d["name"]))
        j = hit + len(want)
        start = toks[j][1]          # first token of the closure expression (`move` or `|`)
        while body[toks[j][1]:toks[j][2]] != "{":
            j += 1
        depth = 0
        end = None
        for k in range(j, len(toks)):
            t = body[toks[k][1]:toks[k][2]]
            if toks[k][0] == "punct" and t == "{":
                depth += 1
            elif toks[k][0] == "punct" and t == "}":
                depth -= 1
                if depth == 0:
                    end = toks[k][2]
                    break
        if end is None:
            raise ExtractError("cut: unbalanced closure in %s" % d["name"])
        body = body[:start] + cut["repl"] + body[end:]
        log.append({"rule": "T9/cut", "fn": d["name"], "open": cut["open"]})
    # T6 substitutions
    for sub in d["subs"]:
        pat = re.compile(sub["regex"], re.S)
        nb = len(pat.findall(body))
        ns = len(pat.findall(sig))
        want = sub.get("count", "1")
        total = nb + ns
        if want != "*" and total != int(want):
            raise ExtractError("rewrite %s on %s: expected %s match(es), found %d (shape changed)" % (sub["id"], d["name"], want, total))
        body = pat.sub(sub["repl"], body)
        sig = pat.sub(sub["repl"], sig)
        log.append({"rule": "T6/" + sub["id"], "fn": d["name"], "count": total})
    # T5 looptop: ghost lines at the very start of the k-th loop's body (position based: robust against moved statements)
    if d.get("looptops"):
        pos = loop_positions(body)
        for k in sorted(d["looptops"], reverse=True):
            if k > len(pos):
                raise ExtractError("looptop anchor #%d lost in %s (only %d loops)" % (k, d["name"], len(pos)))
            txt = "\n".join(l + " // vx-hint" if l.strip() else l for l in d["looptops"][k])
            check_injection(txt, "%s looptop %d" % (d["name"], k))
            body = body[:pos[k - 1] + 1] + "\n" + txt + "\n" + body[pos[k - 1] + 1:]
            log.append({"rule": "T5/looptop", "fn": d["name"], "loop": k})
    # T5 loop specs (apply from last to first so that offsets stay valid)
    if d["loops"]:
        pos = loop_positions(body)
        for k in sorted(d["loops"], reverse=True):
            if k > len(pos):
                raise ExtractError("loop anchor #%d lost in %s (only %d loops)" % (k, d["name"], len(pos)))
            txt = "\n".join(d["loops"][k])
            check_injection(txt, "%s loop %d" % (d["name"], k))
            body = body[:pos[k - 1]] + "\n" + txt + "\n" + body[pos[k - 1]:]
            log.append({"rule": "T5/loop", "fn": d["name"], "loop": k})
    # T5 before/after line anchors
    for inj in d["injects"]:
        lines = body.split("\n")
        hits = [i for i, l in enumerate(lines) if re.search(inj["regex"], l) and "//@inj" not in l]
        if inj["k"] == 0:   # `*`: every match (at least one)
            if not hits:
                if inj.get("optional"):
                    log.append({"rule": "T5/hint-lost", "fn": d["name"], "regex": inj["regex"]})
                    continue
                raise ExtractError("anchor /%s/ (all) lost in %s" % (inj["regex"], d["name"]))
            txt = "\n".join(l + " //@inj" if l.strip() else l for l in inj["lines"])
            check_injection(txt, "%s /%s/" % (d["name"], inj["regex"]))
            for h in reversed(hits):
                at = h + (0 if inj["where"] == "before" else 1)
                lines[at:at] = txt.split("\n")
            body = "\n".join(lines)
            log.append({"rule": "T5/" + inj["where"], "fn": d["name"], "regex": inj["regex"], "k": "*", "matches": len(hits)})
            continue
        if len(hits) < inj["k"]:
            if inj.get("optional"):
                log.append({"rule": "T5/hint-lost", "fn": d["name"], "regex": inj["regex"]})
                continue
            raise ExtractError("anchor /%s/ #%d lost in %s" % (inj["regex"], inj["k"], d["name"]))
        txt = "\n".join(l + " //@inj" if l.strip() else l for l in inj["lines"])
        check_injection(txt, "%s /%s/" % (d["name"], inj["regex"]))
        at = hits[inj["k"] - 1] + (0 if inj["where"] == "before" else 1)
        lines[at:at] = txt.split("\n")
        body = "\n".join(lines)
        log.append({"rule": "T5/" + inj["where"], "fn": d["name"], "regex": inj["regex"], "k": inj["k"]})
    body = body.replace(" //@inj", " // vx-hint")
    if d.get("top"):
        txt = "\n".join(d["top"])
        check_injection(txt, d["name"] + " top")
        if not body.startswith("{"):
            raise ExtractError("body of %s does not start with a brace" % d["name"])
        body = "{\n" + txt + "\n" + body[1:]
        log.append({"rule": "T5/top", "fn": d["name"]})
    if d.get("sig"):
        new = "\n".join(d["sig"])
        # parameter names of the original must survive
        for p in re.findall(r"([a-z_][a-z0-9_]*)\s*:", fn["sig"]):
            if not re.search(r"\b" + p + r"\b", new):
                raise ExtractError("signature override of %s drops parameter %s" % (d["name"], p))
        log.append({"rule": "T8/sig-override", "fn": d["name"], "orig": " ".join(fn["sig"].split())})
        sig = new
    elif d.get("ret"):
        sig = named_return(sig, d["ret"])
    return sig, body


# --------------------------------------------------------------------------------------------
# template processing
# --------------------------------------------------------------------------------------------
def parse_kv(s):
    d = {}
    for m in re.finditer(r'([a-z_]+)=("([^"]*)"|\S+)', s):
        d[m.group(1)] = m.group(3) if m.group(3) is not None else m.group(2)
    return d


class Unit:
    def __init__(self, name, mode="normal", twin_target=None):
        self.name = name
        self.mode = mode            # normal | twin
        self.twin_target = twin_target   # index (in order of appearance) of the one fn whose ensures becomes `false`
        self.fn_counter = 0
        self.twin_key = None        # twinkey= of the target fn (resolved in a pre-pass)
        self.log = []
        self.functions = []         # evidence: extracted functions
        self.regions = []           # (line_lo, line_hi, fn name, default_tag, kind)
        self.srcs = {}
        self.out = []
        self.twin_skips = []
        self.stub_depth = 0         # >0 while processing a fragment included with `stub`
        self.context_depth = 0      # >0 while processing a fragment included with `context` (verified, no twin/accounting)

    def src(self, path):
        if path not in self.srcs:
            if not path.startswith("@gen:") and not os.path.exists(os.path.join(REPO, path)):
                raise ExtractError("source file %s missing" % path)
            self.srcs[path] = Src(path)
        return self.srcs[path]

    def emit(self, text):
        self.out.extend(text.split("\n"))

    def cur_line(self):
        return len(self.out) + 1

    def build(self, template_path):
        with open(template_path) as f:
            lines = f.read().split("\n")
        self.process(lines)
        return "\n".join(self.out) + "\n"

    def process(self, lines):
        i = 0
        while i < len(lines):
            l = lines[i]
            st = l.strip()
            if st.startswith("//@include "):
                parts = st.split()
                p = os.path.join(VERIF, parts[1])
                flag = parts[2] if len(parts) > 2 else ""
                if flag not in ("", "stub", "context"):
                    raise ExtractError("bad include flag " + flag)
                self.stub_depth += flag == "stub"
                self.context_depth += flag == "context"
                with open(p) as f:
                    self.process(f.read().split("\n"))
                self.stub_depth -= flag == "stub"
                self.context_depth -= flag == "context"
                i += 1
            elif st.startswith("//@item "):
                self.do_item(parse_kv(st[len("//@item "):]), [])
                i += 1
            elif st.startswith("//@itemx "):
                d = parse_kv(st[len("//@itemx "):])
                subs = []
                i += 1
                while i < len(lines) and not lines[i].strip().startswith("//@enditem"):
                    s2 = lines[i].strip()
                    if s2.startswith("//@sub "):
                        kv = parse_kv(s2[7:])
                        subs.append({"id": s2[7:].split()[0], "regex": lines[i + 1].strip(), "repl": lines[i + 2].strip(),
                                     "count": kv.get("count", "1")})
                        i += 3
                    elif s2 == "":
                        i += 1
                    else:
                        raise ExtractError("bad line in //@itemx: " + s2)
                i += 1
                self.do_item(d, subs)
            elif st.startswith("//@fn ") or st.startswith("//@closure "):
                closure = st.startswith("//@closure ")
                d = parse_kv(st.split(None, 1)[1])
                d.update({"attr": [], "spec": [], "subs": [], "loops": {}, "injects": [], "sig": None, "closure": closure})
                i += 1
                vx_block_start = i
                sec, buf = None, []

                def flush():
                    if sec is None:
                        return
                    kind = sec[0]
                    if kind == "attr":
                        d["attr"] = buf[:]
                    elif kind == "top":
                        d["top"] = buf[:]
                    elif kind == "cut":
                        # //@cut <text that precedes the closure>   + one line: the replacement expression (T9, at the original site)
                        body = [b for b in buf if b.strip() != ""]
                        if len(body) != 1:
                            raise ExtractError("//@cut needs exactly 1 line")
                        d.setdefault("cuts", []).append({"open": sec[1].strip(), "repl": body[0].strip()})
                    elif kind == "keep_stmts":
                        # //@keep_stmts n  + one line: the opaque continuation that replaces every statement after the n-th top-level one (T12)
                        body = [b for b in buf if b.strip() != ""]
                        if len(body) != 1:
                            raise ExtractError("//@keep_stmts needs exactly 1 line")
                        d["keep_stmts"] = {"n": int(sec[1].split()[0]), "repl": body[0].strip()}
                    elif kind == "macro":
                        # //@macro <name>  + one line: the expression every `<name>!(..)` invocation is replaced by (token-balanced)
                        body = [b for b in buf if b.strip() != ""]
                        if len(body) != 1:
                            raise ExtractError("//@macro needs exactly 1 line")
                        d.setdefault("macros", []).append({"name": sec[1].strip(), "repl": body[0].strip()})
                    elif kind == "spec":
                        d["spec"] = buf[:]
                    elif kind == "sig":
                        d["sig"] = buf[:]
                    elif kind == "sub":
                        kv = parse_kv(sec[1])
                        rid = sec[1].split()[0]
                        body = [b for b in buf if b.strip() != ""]
                        if len(body) != 2:
                            raise ExtractError("//@sub %s needs exactly 2 lines" % rid)
                        d["subs"].append({"id": rid, "regex": body[0].strip(), "repl": body[1].strip(), "count": kv.get("count", "1")})
                    elif kind == "loop":
                        d["loops"][int(sec[1].split()[0])] = buf[:]
                    elif kind == "looptop":
                        d.setdefault("looptops", {})[int(sec[1].split()[0])] = buf[:]
                    elif kind in ("before", "after", "hint_before", "hint_after"):
                        k, rx = sec[1].split(None, 1)
                        d["injects"].append({"where": kind.replace("hint_", ""), "k": 0 if k == "*" else int(k), "regex": rx.strip(),
                                             "lines": buf[:], "optional": kind.startswith("hint_")})
                while i < len(lines):
                    s2 = lines[i].strip()
                    if s2.startswith("//@endfn"):
                        flush()
                        i += 1
                        break
                    if s2.startswith("//@"):
                        flush()
                        parts = s2[3:].split(None, 1)
                        sec = (parts[0], parts[1] if len(parts) > 1 else "")
                        buf = []
                    else:
                        buf.append(lines[i])
                    i += 1
                else:
                    raise ExtractError("//@fn %s without //@endfn" % d.get("name"))
                if closure:
                    # a lifted closure is called by nothing else in its unit: when it cannot be extracted any more only ITS obligations are lost (the property
                    # they belong to becomes UNDECIDED for lack of obligations); the rest of the unit stays decidable
                    try:
                        self.do_fn(d)
                    except ExtractError as e:
                        self.log.append({"rule": "X/closure-skipped", "fn": d.get("name"), "why": str(e)})
                        # the properties whose obligations are lost with it are named, so that their checks report UNDECIDED instead of passing on what is left
                        lost = sorted(set(re.findall(r"\[(C\d\d)\.[A-Za-z0-9_-]+\]", "\n".join(lines[vx_block_start:i]))) | ({d["default_tag"].split(".")[0]} if d.get("default_tag") else set()))
                        self.out.append("// vx-skipped: lifted closure `%s` could not be extracted: %s %s" % (d.get("name"), str(e).replace("\n", " "),
                                                                                                              " ".join("[%s.closure-skipped]" % t for t in lost)))
                else:
                    self.do_fn(d)
            elif st.startswith("//@assume_text "):
                # the text an ASSUMED contract is about (e.g. serde attributes whose derive output is trusted) must be what was assumed
                kv = parse_kv(st[len("//@assume_text "):])
                rx = lines[i + 1].strip()
                src = self.src(kv["file"])
                n = len(re.findall(rx, src.text, flags=re.S))
                if n != int(kv["count"]):
                    raise ExtractError("assumed text /%s/ occurs %d times in %s, expected %s: the trusted assumption no longer covers this source" % (rx, n, kv["file"], kv["count"]))
                self.log.append({"rule": "A/assume_text", "file": kv["file"], "regex": rx, "count": n})
                i += 2
            elif st.startswith("//@"):
                raise ExtractError("unknown directive: " + st)
            else:
                m = re.match(r"^(.*?)\s*//@twin (\S+) => (.*)$", l)
                if m:
                    l = m.group(3) if (self.mode == "twin" and self.twin_key == m.group(2)) else m.group(1)
                if self.stub_depth > 0:
                    l = re.sub(r"\[(C\d\d\.[A-Za-z0-9_-]+)\]", r"(\1)", l)
                self.out.append(l)
                i += 1

    def do_item(self, d, subs):
        src = self.src(d["file"])
        text, span = src.find_item(d["kind"], d["name"])
        log = []
        text = strip_attrs_and_docs(text, log)
        text = drop_auto_traits(text, log)
        for sub in subs:
            pat = re.compile(sub["regex"], re.S)
            n = len(pat.findall(text))
            if sub["count"] != "*" and n != int(sub["count"]):
                raise ExtractError("rewrite %s on item %s: expected %s match(es), found %d" % (sub["id"], d["name"], sub["count"], n))
            text = pat.sub(sub["repl"], text)
            log.append({"rule": "T6/" + sub["id"], "count": n})
        if d["kind"] in ("struct", "enum", "trait", "type"):
            text = make_pub(text, d["kind"], log)
        for e in log:
            e["item"] = d["kind"] + " " + d["name"]
        self.log.extend(log)
        lo = self.cur_line()
        self.emit(text)
        self.functions.append({"item": d["kind"] + " " + d["name"], "file": d["file"], "lines": list(span),
                               "sha256": hashlib.sha256(text.encode()).hexdigest()})
        self.regions.append((lo, self.cur_line() - 1, d["kind"] + " " + d["name"], None, "item"))

    def do_fn(self, d):
        src = self.src(d["file"])
        if d["closure"]:
            outer = src.find_fn(d.get("impl", "-"), d["fn"])
            k0, j0, c0 = outer["ci"]
            want = lex_words(d["open"])
            hit = None
            for k in range(j0, c0 - len(want)):
                if [src.t(t) for t in src.code[k:k + len(want)]] == want:
                    if hit is not None:
                        raise ExtractError("closure opener %r not unique" % d["open"])
                    hit = k
            if hit is None:
                raise ExtractError("closure opener %r lost in %s" % (d["open"], d["fn"]))
            j = hit + len(want)
            while src.t(src.code[j]) != "{":
                j += 1
            close = src.match_brace(j)
            blk = src.text[src.code[j][1]:src.code[close][2]]
            if d.get("prefix"):
                # the closure's body is `<prefix> { ... }` (e.g. `move || loop { .. }`): keep the keyword
                between = " ".join(src.t(t) for t in src.code[hit + len(want):j])
                if between != d["prefix"]:
                    raise ExtractError("closure %s: expected `%s` before the block, found `%s`" % (d["name"], d["prefix"], between))
                blk = "{ " + d["prefix"] + " " + blk + "\n}"
            fn = {"sig": "fn %s()" % d["name"], "body": blk,
                  "lines": (src.line_of(src.code[hit][1]), src.line_of(src.code[close][2]))}
            self.log.append({"rule": "T9/closure-lift", "fn": d["name"], "from": d["fn"], "open": d["open"]})
            if not d["sig"]:
                raise ExtractError("//@closure needs //@sig")
            fn["sig_is_synthetic"] = True
        else:
            fn = src.find_fn(d.get("impl", "-"), d["name"])
        raw_hash = hashlib.sha256((fn["sig"] + fn["body"]).encode()).hexdigest()
        log = []
        if (self.stub_depth > 0 or d.get("stub")) and not d["closure"]:
            # T7 stub: only the signature matters; body rules (rewrites, loop specs, injections) are not applied, so a change inside
            # the body of a function that is merely *called* from this unit cannot make this unit undecided
            sig = drop_auto_traits(fn["sig"], log)
            for sub in d["subs"]:
                sig = re.compile(sub["regex"], re.S).sub(sub["repl"], sig)
            if d.get("sig"):
                sig = "\n".join(d["sig"])
            elif d.get("ret"):
                sig = named_return(sig, d["ret"])
            body = "{ unimplemented!() }"
        elif d["closure"]:
            fn_for_rules = dict(fn)
            fn_for_rules["sig"] = ""   # no parameter-survival check for synthetic signatures
            sig, body = apply_fn_rules(fn_for_rules, d, log)
        else:
            sig, body = apply_fn_rules(fn, d, log)
        self.log.extend(log)
        spec = d["spec"][:]
        my_index = self.fn_counter
        self.fn_counter += 1
        stub = self.stub_depth > 0 or d.get("stub")
        if stub:
            # T7: callee stub -- signature and contract of the real function, body dropped; proved in its home unit
            # (or, for `stub=<reason>` on the directive itself, assumed and listed in the trusted base)
            spec = strip_ensures_tags(spec)
            self.emit("#[verifier::external_body]")
            lo = self.cur_line()
            self.emit(sig.rstrip())
            spec_lo = self.cur_line()
            for s_ in spec:
                self.emit(s_)
            body_lo = self.cur_line()
            self.emit("{ unimplemented!() }")
            hi = self.cur_line() - 1
            self.functions.append({"stub_of": d["name"], "impl": d.get("impl", "-"), "file": d["file"], "lines": list(fn["lines"]),
                                   "sha256": raw_hash, "assumed_here": bool(d.get("stub")), "why": d.get("stub") or "proved in its home unit"})
            self.regions.append((lo, hi, d["name"], None, "stub", spec_lo, body_lo, my_index))
            return
        if self.context_depth > 0:
            self.twin_skips.append({"fn": d["name"], "index": my_index, "why": "context copy; twin runs in the home unit"})
        elif d.get("twin", "").startswith("skip"):
            self.twin_skips.append({"fn": d["name"], "index": my_index, "why": d["twin"]})
        elif self.mode == "twin" and self.twin_target == my_index:
            if not d.get("twinkey"):
                spec = twin_spec(spec)
        if d.get("default_tag"):
            self.emit("// [%s] body-safety obligations of `%s` (overflow, unwrap, index, callee preconditions)" % (d["default_tag"], d["name"]))
        for a in d["attr"]:
            self.emit(a)
        lo = self.cur_line()
        self.emit(sig.rstrip())
        spec_lo = self.cur_line()
        for s in spec:
            self.emit(s)
        body_lo = self.cur_line()
        self.emit(body)
        hi = self.cur_line() - 1
        self.functions.append({"fn": d["name"], "impl": d.get("impl", "-"), "file": d["file"], "lines": list(fn["lines"]),
                               "sha256": raw_hash, "closure": bool(d["closure"])})
        self.regions.append((lo, hi, d["name"], d.get("default_tag"), "fn", spec_lo, body_lo, my_index, d.get("twinkey")))


def strip_ensures_tags(spec):
    """in a stub the `ensures` clauses are assumptions, not obligations: their property tags are removed;
    tags on `requires` clauses stay (they become call-site obligations of the including unit)"""
    out, in_req = [], False
    for l in spec:
        s = l.strip()
        if re.match(r"requires\b", s):
            in_req = True
        elif re.match(r"(ensures|decreases|recommends)\b", s):
            in_req = False
        out.append(l if in_req else re.sub(r"\[(C\d\d\.[A-Za-z0-9_-]+)\]", r"(\1)", l))
    return out


def twin_spec(spec):
    """vacuity twin: keep `requires`, replace the `ensures` section by `ensures false`"""
    out, in_ens, had = [], False, False
    for l in spec:
        s = l.strip()
        if re.match(r"ensures\b", s):
            in_ens, had = True, True
            out.append("    ensures false, // [TWIN]")
            continue
        if re.match(r"(requires|decreases|recommends|no_unwind|opens_invariants)\b", s):
            in_ens = False
        if not in_ens:
            out.append(l)
    if not had:
        out.append("    ensures false, // [TWIN]")
    return out


def generate(unit_name, out_path, mode="normal", twin_target=None, twin_key=None):
    u = Unit(unit_name, mode, twin_target)
    u.twin_key = twin_key
    text = u.build(os.path.join(VERIF, "units", unit_name + ".vrs"))
    os.makedirs(os.path.dirname(out_path), exist_ok=True)
    with open(out_path, "w") as f:
        f.write(text)
    meta = {"unit": unit_name, "mode": mode, "functions": u.functions, "rewrites": u.log,
            "regions": u.regions, "twin_skips": u.twin_skips}
    with open(out_path + ".meta.json", "w") as f:
        json.dump(meta, f, indent=1)
    return meta


if __name__ == "__main__":
    try:
        m = generate(sys.argv[1], sys.argv[2], sys.argv[3] if len(sys.argv) > 3 else "normal")
        print(json.dumps({"functions": len(m["functions"]), "rewrites": len(m["rewrites"])}))
    except ExtractError as e:
        print("EXTRACT-ERROR: %s" % e)
        sys.exit(2)
