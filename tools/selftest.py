#!/usr/bin/env python3
"""selftest.py [<property>|all] [--jobs N]
Mutation self-test of the contracts (thorough tier): each mutant below is a small source change applied to a SCRATCH COPY of
/repo (a detached git worktree under $TMPDIR, removed afterwards; /repo itself is never touched).  For every mutant the check of every
claimed property is run against the scratch tree (VX_REPO), exactly as registered (replay built against that tree):
  * a property listed in `expect` must report VIOLATION (exit 1)           -> otherwise the mutant SURVIVED (weak contract)
  * a property not listed must not report VIOLATION (exit 0 or 2)          -> otherwise OVER-ALARM (false attribution)
Prints one line per (mutant, property) that is off, and a JSON summary as last line.  Exit 0 always (it documents strength)."""
import concurrent.futures as cf
import json
import os
import re
import shutil
import subprocess
import sys
import tempfile

VERIF = os.path.dirname(os.path.dirname(os.path.abspath(__file__)))
REPO = "/repo"

# (name, file, regex (re.S), replacement, expected properties)
MUTANTS = [
    ("oneway-gate-removed-reply_struct", "varlink/src/lib.rs",
     r"if self\.is_oneway\(\) \{\s*// a oneway call never gets a reply\s*return Ok\(\(\)\);\s*\}\s*if self\.continues \{", "if self.continues {", {"C04", "C01"}),
    ("oneway-gate-removed-reply_parameters", "varlink/src/lib.rs",
     r"(fn reply_parameters\(&mut self, parameters: Value\) -> Result<\(\)> \{)\s*if self\.is_oneway\(\) \{[^}]*\}", r"\1", {"C04", "C01"}),
    ("continues-gate-removed", "varlink/src/lib.rs",
     r"if self\.continues && \(!self\.wants_more\(\)\) \{", "if false {", {"C05"}),
    ("continues-flag-not-stamped", "varlink/src/lib.rs",
     r"if self\.continues \{\s*reply\.continues = Some\(true\);\s*\}", "", {"C05", "C01"}),
    ("nul-terminator-dropped", "varlink/src/lib.rs",
     r'(fn reply_struct.*?let b = serde_json::to_string\(&reply\)\.map_err\(map_context!\(\)\)\?) \+ "\\0";', r"\1;", None),
    ("split-at-first-dot", "varlink/src/lib.rs", r"req\.method\.rfind\('\.'\)", "req.method.find('.')", {"C03"}),
    ("nodot-early-return", "varlink/src/lib.rs",
     r"// keep serving: further requests may already be buffered\s*continue;", "return Ok((Vec::new(), None));", {"C01", "C02", "C06"}),
    ("frame-not-popped", "varlink/src/lib.rs", r"// pop the last zero byte\s*buf\.pop\(\);", "", {"C01", "C06"}),
    ("dispatch-error-swallowed", "varlink/src/lib.rs", r"self\.call\(&iface, &mut call\)\?;", "let _ = self.call(&iface, &mut call);", {"C01"}),
    ("incomplete-message-parsed", "varlink/src/lib.rs",
     r"if buf\.get\(len - 1\)\.unwrap_or\(&b'x'\) != &b'\\0' \{\s*// Incomplete message\s*return Ok\(\(buf, None\)\);\s*\}", "", {"C01", "C02", "C06"}),
    ("upgrade-tail-dropped-in-handle", "varlink/src/lib.rs",
     r"Ok\(\(bufreader\.buffer\(\)\.to_vec\(\), upgraded_iface\)\)", "Ok((Vec::new(), upgraded_iface))", {"C01", "C02", "C06"}),
    ("unknown-interface-description-method-not-found", "varlink/src/lib.rs",
     r'_ => call\.reply_invalid_parameter\("interface"\.into\(\)\),', '_ => call.reply_method_not_found("interface".into()),', {"C03"}),
    ("routing-negated", "varlink/src/lib.rs",
     r"(fn call\(&self, iface: &str, call: &mut Call\) -> Result<\(\)> \{.*?)if self\.ifaces\.contains_key\(key\) \{", r"\1if !self.ifaces.contains_key(key) {", {"C03", "C06"}),
    ("getinfo-lists-builtin-last", "varlink/src/lib.rs",
     r'let mut ifnames: Vec<Cow<\'static, str>> = vec!\["org\.varlink\.service"\.into\(\)\];\s*ifnames\.extend\(ifhashmap\.keys\(\)\.cloned\(\)\);',
     'let mut ifnames: Vec<Cow<\'static, str>> = Vec::new();\n        ifnames.extend(ifhashmap.keys().cloned());\n        ifnames.push("org.varlink.service".into());', None),
    ("client-oneway-takes-reader", "varlink/src/lib.rs",
     r"if oneway \{\s*req\.oneway = Some\(true\);\s*\} else \{\s*self\.reader = conn\.reader\.take\(\);\s*\}",
     "if oneway {\n                req.oneway = Some(true);\n            }\n            self.reader = conn.reader.take();", {"C04"}),
    ("client-busy-check-after-write", "varlink/src/lib.rs",
     r"if conn\.reader\.is_none\(\) \|\| conn\.writer\.is_none\(\) \{\s*return Err\(context!\(ErrorKind::ConnectionBusy\)\.into\(\)\);\s*\}", "", {"C07", "C04"}),
    ("client-recv-keeps-slots-on-final", "varlink/src/lib.rs",
     r"conn\.reader = self\.reader\.take\(\);\s*conn\.writer = self\.writer\.take\(\);", "conn.reader = self.reader.take();", {"C05", "C07"}),
    ("client-error-kinds-swapped", "varlink/src/lib.rs",
     r"Ok\(v\) => ErrorKind::MethodNotFound\(v\.method\.unwrap_or_default\(\)\),", "Ok(v) => ErrorKind::MethodNotImplemented(v.method.unwrap_or_default()),", {"C07"}),
    ("client-next-ignores-continues", "varlink/src/lib.rs",
     r"if !self\.continues \{\s*return None;\s*\}\s*Some\(self\.recv\(\)\)", "Some(self.recv())", {"C05"}),
    ("stringset-values-not-consumed", "varlink/src/lib.rs",
     r"// every key of a map is followed by a value that has to be consumed\s*visitor\.next_value::<de::IgnoredAny>\(\)\?;", "", {"C17"}),
    ("stringset-serialized-as-null-values", "varlink/src/lib.rs",
     r"let null_obj: serde_json::Value = serde_json::Value::Object\(serde_json::Map::new\(\)\);", "let null_obj: serde_json::Value = serde_json::Value::Null;", {"C17"}),
    ("pool-off-by-one", "varlink/src/server.rs", r"\(self\.workers\.len\(\) < self\.max_workers\)", "(self.workers.len() <= self.max_workers)", {"C14"}),
    ("pool-counter-raised-by-worker", "varlink/src/server.rs",
     r"(Message::NewJob\(job\) => \{)\s*(job\.call_box\(\);)",
     r"\1\n                    {\n                        let mut num_busy = num_busy.write().unwrap();\n                        *num_busy += 1;\n                    }\n                    \2", {"C14"}),
    ("pool-counter-not-raised-on-enqueue", "varlink/src/server.rs",
     r"\{\s*let mut num_busy = self\.num_busy\.write\(\)\.unwrap\(\);\s*\*num_busy \+= 1;\s*\}\s*(self\.sender\.send\(Message::NewJob\(job\)\)\.unwrap\(\);)", r"\1", {"C14"}),
    ("worker-lowers-counter-before-job", "varlink/src/server.rs",
     r"(job\.call_box\(\);)\s*(\{\s*let mut num_busy = num_busy\.write\(\)\.unwrap\(\);\s*\*num_busy -= 1;\s*\})", r"\2\n                    \1", {"C14"}),
    ("drop-does-not-join", "varlink/src/server.rs",
     r"if let Some\(thread\) = worker\.thread\.take\(\) \{\s*thread\.join\(\)\.unwrap\(\);\s*\}", "let _ = worker;", {"C15"}),
    ("idle-timeout-ignores-busy", "varlink/src/server.rs", r"if pool\.num_busy\(\) == 0 \{", "if pool.num_busy() < usize::MAX {", {"C15"}),
    ("idle-countdown-never-reset-check", "varlink/src/server.rs", r"if to_wait <= wait_time \{", "if to_wait <= wait_time || to_wait > 0 {", {"C15"}),
    ("worker-keeps-going-after-error", "varlink/src/server.rs", r"let _ = stream\.shutdown\(\);\s*break;", "break;", {"C06"}),
    ("generated-fallback-wrong-error", "varlink_stdinterfaces/src/org_varlink_service.rs",
     r"m => call\.reply_method_not_found\(String::from\(m\)\),", "m => call.reply_method_not_implemented(String::from(m)),", {"C03"}),
    ("generated-dispatch-swallows-missing-parameters", "varlink_stdinterfaces/src/org_varlink_service.rs",
     r'call\.reply_invalid_parameter\("parameters"\.into\(\)\)', "Ok(())", None),
    ("socket-file-not-unlinked", "varlink/src/server.rs", r"let _ = fs::remove_file\(path\);", "let _ = path;", {"C15"}),
    ("activated-flag-flipped-in-drop", "varlink/src/server.rs", r"Listener::UNIX\(Some\(ref listener\), false\) => \{", "Listener::UNIX(Some(ref listener), true) => {", {"C15"}),
    ("nodot-answered-with-method-not-found", "varlink/src/lib.rs",
     r"call\.reply_interface_not_found\(Some\(method\)\)\?;", "call.reply_method_not_found(method)?;", {"C03"}),
    ("activation-without-pid-check", "varlink/src/server.rs",
     r"Ok\(ref pid\) if pid\.parse::<usize>\(\) == Ok\(process::id\(\) as usize\) => \{\}", "Ok(_) => {}", {"C16"}),
    ("activation-single-fd-is-4", "varlink/src/server.rs", r"if nfds == 1 \{\s*return Some\(3\);", "if nfds == 1 {\n        return Some(4);", {"C16"}),
    ("server-semicolon-parameters-not-cut", "varlink/src/server.rs",
     r'(\} else if let Some\(addr\) = address\.strip_prefix\("unix:"\) \{)\s*let addr = addr\.split\(\';\'\)\.next\(\)\.unwrap_or\(addr\);', r"\1", {"C16"}),
    ("client-accepts-prefix-unix-without-colon", "varlink/src/client.rs",
     r'\} else if let Some\(addr\) = new_address\.strip_prefix\("unix:"\) \{', '} else if let Some(addr) = new_address.strip_prefix("unix") {', {"C16"}),
    ("server-unknown-scheme-under-activation-accepted", "varlink/src/server.rs",
     r'(Some\(UnixListener::from_raw_fd\(l as RawFd\)\),\s*true,\s*\)\);\s*\}\s*\} else \{)\s*return Err\(context!\(ErrorKind::InvalidAddress\)\);', r"\1\n                    unsafe { return Ok(Listener::UNIX(Some(UnixListener::from_raw_fd(l as RawFd)), true)); }", {"C16"}),
    ("upgraded-handler-entered-after-a-read", "varlink/src/lib.rs",
     r"(loop \{)\s*(if let Some\(iface\) = upgraded_iface \{\s*let mut call = Call::new_upgraded\(writer\);\s*let unread = self\.call_upgraded\(&iface, &mut call, &mut bufreader\)\?;\s*return Ok\(\(unread, Some\(iface\)\)\);\s*\})\s*(let mut buf = Vec::new\(\);\s*let len = bufreader\s*\.read_until\(b'\\0', &mut buf\)\s*\.map_err\(map_context!\(\)\)\?;)",
     r"\1\n            \3\n            \2", {"C02"}),
    ("idl-cross-kind-duplicate-missed", "varlink_parser/src/lib.rs",
     r"if i\.error_keys\.contains\(&m\.name\) \|\| i\.typedef_keys\.contains\(&m\.name\) \{", "if i.error_keys.contains(&m.name) {", {"C11"}),
    ("idl-typedef-key-not-recorded", "varlink_parser/src/lib.rs", r"i\.typedef_keys\.push\(t\.name\);", "", {"C11"}),
    ("idl-same-kind-duplicate-error-ignored", "varlink_parser/src/lib.rs",
     r"if let Some\(d\) = i\.errors\.insert\(e\.name, e\) \{", "if let Some(d) = i.errors.insert(e.name, e).filter(|_| false) {", None),
    ("idl-duplicates-accepted", "varlink_parser/src/lib.rs", r"if !interface\.error\.is_empty\(\) \{", "if interface.error.is_empty() {", {"C11"}),
    ("listen-drops-upgrade-tail", "varlink/src/server.rs",
     r"unread = if i\.is_some\(\) \{ rest \} else \{ Vec::new\(\) \};", "let _ = rest;", {"C02", "C01"}),
    ("cli-split-at-first-slash", "varlink-cli/src/main.rs",
     r"(fn varlink_call\(.*?)if let Some\(del\) = url\.rfind\('/'\) \{", r"\1if let Some(del) = url.find('/') {", {"C20"}),
    ("cli-method-keeps-slash", "varlink-cli/src/main.rs", r"method = &url\[\(del \+ 1\)\.\.\];", "method = &url[del..];", {"C20"}),
    ("cli-resolver-asked-for-first-label", "varlink-cli/src/main.rs",
     r"(fn varlink_call\(.*?)if let Some\(del\) = url\.rfind\('\.'\) \{\s*interface = &url\[0\.\.del\];", r"\1if let Some(del) = url.find('.') {\n                        interface = &url[0..del];", {"C20"}),
    ("cli-more-error-ignored", "varlink-cli/src/main.rs",
     r"print_call_ret\(color_mode, cf\.clone\(\), ret, should_colorize, method, &args\)\?", "let _ = print_call_ret(color_mode, cf.clone(), ret, should_colorize, method, &args);", {"C20"}),
    ("cli-more-stops-after-first", "varlink-cli/src/main.rs",
     r"(print_call_ret\(color_mode, cf\.clone\(\), ret, should_colorize, method, &args\)\?)", r"\1;\n            break;", {"C20"}),
    ("cli-error-reply-exit-ok", "varlink-cli/src/main.rs",
     r"(fn print_call_ret\(.*?)\}\)\?;\s*println!", r"\1}).unwrap_or_default();\n\n    println!", {"C20"}),
    ("cert-step-compare-inverted", "varlink-certification/src/main.rs", r"if context\.test != test \{", "if context.test == test {", {"C19"}),
    ("cert-step-not-advanced", "varlink-certification/src/main.rs", r"context\.test = next_test\.into\(\);", "", {"C19"}),
    ("cert-unknown-id-accepted", "varlink-certification/src/main.rs",
     r"(fn check_client_id\(&mut self.*?\}\s*\}\s*)_ => false,", r"\1_ => true,", {"C19"}),
    ("cert-test05-next-step-typo", "varlink-certification/src/main.rs",
     r'check_client_id\(&client_id, "Test05", "Test06"\)', 'check_client_id(&client_id, "Test05", "Test05")', {"C19"}),
    ("cert-test08-gate-names-test07", "varlink-certification/src/main.rs",
     r'check_client_id\(&client_id, "Test08", "Test09"\)', 'check_client_id(&client_id, "Test07", "Test09")', {"C19"}),
    ("cert-end-gate-does-not-return", "varlink-certification/src/main.rs",
     r'(check_client_id\(&client_id, "End", "End"\) \{\s*)return call\.reply_client_id_error\(\);', r"\1call.reply_client_id_error()?;", {"C19"}),
    ("cert-expiry-removes-front-of-table", "varlink-certification/src/main.rs",
     r"if instant\.elapsed\(\)\.as_secs\(\) > self\.max_lifetime \{\s*self\.contexts\.remove\(client_id\);",
     "if instant.elapsed().as_secs() > self.max_lifetime {\n                        self.contexts.insert(client_id.clone(), TestContext { test: \"Test01\".into() });", {"C19"}),
    ("cert-more-check-accepts-upgrade", "varlink-certification/src/main.rs",
     r"(macro_rules! check_call_more \{.*?let check = match \$c\.get_request\(\) \{\s*)Some\(&varlink::Request \{\s*oneway: Some\(true\), \.\.\s*\}\)\s*\| Some\(&varlink::Request \{\s*upgrade: Some\(true\),\s*\.\.\s*\}\) => false,",
     r"\1Some(&varlink::Request {\n                oneway: Some(true), ..\n            }) => false,", {"C19"}),
    ("cert-value-comparison-skipped", "varlink-certification/src/main.rs", r"Ok\(w\) => wants == w,", "Ok(w) => { let _ = &w; true }", {"C19"}),
    ("cert-normal-check-fallthrough-true", "varlink-certification/src/main.rs",
     r"(macro_rules! check_call_normal \{.*?)_ => false,\s*\};\s*if !check", r"\1_ => true,\n        };\n        if !check", {"C19"}),
    ("cert-test03-checks-wrong-method-name", "varlink-certification/src/main.rs",
     r'"org\.varlink\.certification\.Test03",\s*Test03_Args,', '"org.varlink.certification.Test02",\n            Test03_Args,', {"C19"}),
    ("bridge-relay-stops-on-continues", "varlink-cli/src/proxy.rs",
     r"if upgraded \|\| \(!reply\.continues\.unwrap_or\(false\)\) \{", "if upgraded || reply.continues.unwrap_or(false) {", {"C18"}),
    ("bridge-reply-not-written-to-client", "varlink-cli/src/proxy.rs",
     r"client_writer\.write_all\(&buf\)\?;\s*client_writer\.flush\(\)\?;\s*buf\.pop\(\);", "client_writer.flush()?;\n\n                buf.pop();", {"C18"}),
    ("bridge-waits-for-oneway-reply", "varlink-cli/src/proxy.rs", r"if req\.oneway\.unwrap_or\(false\) \{\s*continue;\s*\}", "", {"C18"}),
    ("bridge-getinfo-not-redirected", "varlink-cli/src/proxy.rs",
     r'if req\.method == "org\.varlink\.service\.GetInfo" \{\s*req\.method = "org\.varlink\.resolver\.GetInfo"\.into\(\);\s*\}', "", {"C18"}),
    ("bridge-interface-split-at-first-dot", "varlink-cli/src/proxy.rs",
     r"(pub fn handle<R, W>.*?)let n: usize = match req\.method\.rfind\('\.'\) \{", r"\1let n: usize = match req.method.find('.') {", {"C18"}),
    ("bridge-resolver-address-hard-coded", "varlink-cli/src/proxy.rs",
     r"address = String::from\(resolver_address\);", 'address = String::from("unix:/run/org.varlink.resolver");', {"C18"}),
    ("bridge-request-without-terminator", "varlink-cli/src/proxy.rs",
     r'(pub fn handle<R, W>.*?)let b = to_string\(&req\)\? \+ "\\0";', r"\1let b = to_string(&req)?;", {"C18"}),
    ("copy-drops-last-byte-of-chunk", "varlink-cli/src/proxy.rs", r"writer\.write_all\(&buf\[\.\.len\]\)\?;", "writer.write_all(&buf[..len - 1])?;", {"C18"}),
    ("copy-interrupted-ends-copy", "varlink-cli/src/proxy.rs",
     r"Err\(ref e\) if e\.kind\(\) == ErrorKind::Interrupted => continue,", "Err(ref e) if e.kind() == ErrorKind::Interrupted => return Ok(written),", {"C18"}),
    ("generator-missing-parameters-method-not-found", "varlink_generator/src/lib.rs",
     r'call\.reply_invalid_parameter\("parameters"\.into\(\)\)', 'call.reply_method_not_found("parameters".into())', {"C08"}),
    ("generator-ill-typed-parameters-not-reported", "varlink_generator/src/lib.rs",
     r"let _ = call\.reply_invalid_parameter\(es\.clone\(\)\);", "", {"C08"}),
    ("generator-unknown-method-invalid-parameter", "varlink_generator/src/lib.rs",
     r"call\.reply_method_not_found\(String::from\(m\)\)", "call.reply_invalid_parameter(String::from(m))", {"C08"}),
    ("generator-wire-name-uses-first-method-only", "varlink_generator/src/lib.rs",
     r'let varlink_method_name = format!\("\{\}\.\{\}", idl\.name, t\.name\);', 'let varlink_method_name = format!("{}.{}", idl.name, t.name.to_lowercase());', {"C08"}),
    ("parse-error-line-off-by-one", "varlink_parser/src/lib.rs",
     r"nth\(e\.location\.line - 1\)\.unwrap\(\);", "nth(e.location.line).unwrap_or_default();", {"C12"}),
    ("parse-error-column-is-offset", "varlink_parser/src/lib.rs", r"column: e\.location\.column,", "column: e.location.offset,", {"C12"}),
    ("activation-env-set-in-child", "varlink/src/client.rs",
     r'(\.pre_exec\(move \|\| \{\s*dup2\(2, 1\);)', r'\1\n                std::env::set_var("LISTEN_FDS", "1");', {"C16"}),
    ("activation-fd3-keeps-cloexec", "varlink/src/client.rs",
     r"\} else \{\s*// the socket already is descriptor 3.*?fcntl\(fd, F_SETFD, flags & !FD_CLOEXEC\);\s*\}", "}", {"C16"}),
    ("activation-listen-fds-missing", "varlink/src/client.rs", r'\s*\.env\("LISTEN_FDS", "1"\)', "", {"C16"}),
    ("activation-listen-pid-not-exported", "varlink/src/client.rs",
     r'String::from\("export LISTEN_PID=\$\$; exec "\)', 'String::from("exec ")', {"C16"}),
    ("bridge-command-stdio-shares-one-descriptor", "varlink/src/client.rs",
     r"let childout = childin\.try_clone\(\)\.map_err\(map_context!\(\)\)\?;", "let childout = unsafe { ::std::fs::File::from_raw_fd(fd) };", {"C16"}),
    ("bridge-connect-unwraps-missing-child", "varlink-cli/src/proxy.rs",
     r'\.expect\("only the child watcher sends 3"\)\s*\.join\(\)', '.unwrap()\n                .join()', None),
    ("bridge-connect-child-required", "varlink-cli/src/proxy.rs",
     r"let child_watch = conn\.child\.take\(\)\.map\(\|mut child\| \{", "let mut child = conn.child.take().unwrap();\n    let child_watch = Some(()).map(|_| {", {"C18"}),
    # ---- C09 (unit gen + bounded audits) ----
    ("gen-header-written-before-parsing", "varlink_generator/src/lib.rs",
     r"(reader\.read_to_string\(&mut buffer\)\.map_err\(Error::Io\)\?;)", r'\1' + "\n    writer.write_all(b\"// generated\\n\").map_err(Error::Io)?;", {"C09"}),
    ("gen-parse-error-swallowed", "varlink_generator/src/lib.rs",
     r"(pub fn generate_with_options\(.*?)let idl = IDL::try_from\(buffer\.as_str\(\)\)\.map_err\(Error::Parse\)\?;",
     r'\1let idl = match IDL::try_from(buffer.as_str()) { Ok(i) => i, Err(_) => return Ok(()) };', {"C09"}),
    ("gen-generate-ignores-tosource", "varlink_generator/src/lib.rs",
     r"(pub fn generate\(.*?\.\.Default::default\(\)\s*\},\s*)tosource,", r"\1true,", {"C09"}),
    ("gen-output-written-twice", "varlink_generator/src/lib.rs",
     r"(\n    writer\s*\.write_all\(ts\.to_string\(\)\.as_bytes\(\)\)\s*\.map_err\(Error::Io\))\n", r"\1?;\n    writer.write_all(ts.to_string().as_bytes()).map_err(Error::Io)\n", {"C09"}),
    ("gen-error-anon-types-thrice", "varlink_generator/src/lib.rs",
     r"(pub struct #args_name \{\s*#\(#args_anot pub #args_enames: #args_etypes,\)\*\s*\})", r"\1\n            #[allow(dead_code)] pub type VxAlias = ErrorKind; #[allow(dead_code)] pub type VxAlias = ErrorKind;", {"C09"}),
    # ---- C10 (bounded exhaustive + unit cli) ----
    ("fmt-display-width-79", "varlink_parser/src/format.rs", r"f\.write_str\(&self\.get_multiline\(0, 80\)\)", "f.write_str(&self.get_multiline(0, 79))", {"C10"}),
    ("fmt-cli-default-width-100", "varlink-cli/src/main.rs",
     r'(idl\.get_multiline\(0, line_len\.unwrap_or\("80"\)\.parse::<usize>\(\)\.unwrap_or\()80(\)\))', r"\g<1>100\2", {"C10"}),
    ("fmt-cli-colored-when-plain", "varlink-cli/src/main.rs",
     r'idl\.get_multiline\(0, line_len\.unwrap_or\("80"\)', 'idl.get_multiline_colored(0, line_len.unwrap_or("80")', {"C10"}),
    ("fmt-enum-multiline-drops-last-comma-newline", "varlink_parser/src/format.rs",
     r'(impl Format for VEnum<\'_> \{.*?fn get_multiline.*?)f \+= &format!\(",\\n\{:indent\$\}\{\}", "", elt, indent = indent \+ 2\);', r'\1f += &format!(", {}", elt);', None),
    ("fmt-struct-fit-test-off-by-two", "varlink_parser/src/format.rs",
     r"(impl Format for VStruct<'_> \{.*?fn get_multiline.*?)if line\.len\(\) \+ indent \+ 2 < max \{", r"\1if line.len() + indent < max {", {"C10"}),   # the plain layout alone changes: colored and plain no longer agree
    ("fmt-option-marker-dropped-multiline", "varlink_parser/src/format.rs",
     r'(fn get_multiline\(&self, indent: usize, max: usize\) -> String \{\s*match \*self \{.*?)VTypeExt::Option\(ref v\) => format!\("\?\{\}", v\.get_multiline\(indent, max\)\),', r'\1VTypeExt::Option(ref v) => v.get_multiline(indent, max),', {"C10"}),
    ("fmt-colored-typedef-doc-dropped", "varlink_parser/src/format.rs",
     r"(impl FormatColored for IDL<'_> \{.*?fn get_multiline_colored.*?for t in self\.typedef_keys.*?)if !t\.doc\.is_empty\(\) \{", r"\1if false {", {"C10"}),
    # ---- C18 additions (extension round) ----
    ("bridge-readahead-echoed-to-client", "varlink-cli/src/proxy.rs",
     r"service_writer\.write_all\(client_bufreader\.buffer\(\)\)\?;\s*service_writer\.flush\(\)\?;", "client_writer.write_all(client_bufreader.buffer())?;", {"C18"}),
    ("bridge-readahead-not-flushed", "varlink-cli/src/proxy.rs",
     r"(service_writer\.write_all\(client_bufreader\.buffer\(\)\)\?;)\s*service_writer\.flush\(\)\?;", r"\1", {"C18"}),
    ("bridge-copy-flushes-only-short-reads", "varlink-cli/src/proxy.rs",
     r"(writer\.write_all\(&buf\[\.\.len\]\)\?;\s*)writer\.flush\(\)\?;", r"\1if len < buf.len() { writer.flush()?; }", {"C18"}),
    ("gen-helper-continues-after-failed-generation", "varlink_generator/src/lib.rs",
     r"(if let Err\(e\) = generate_with_options\(reader, writer, options, true\) \{\s*eprintln!\(\s*\"Could not generate rust code from varlink file `\{\}`: \{\}\",\s*input_path\.display\(\),\s*e,\s*\);)\s*exit\(1\);", r"\1", {"C09"}),
]


# properties that MAY also report a mutant (collateral: the mutant breaks them too, or breaks so much that their replay corpus fails);
# a report from a property in neither set counts as OVER-ALARM
MAY = {
    "incomplete-message-parsed": {"C01", "C06"},
    "upgrade-tail-dropped-in-handle": {"C01", "C06"},
    "frame-not-popped": {"C02", "C03"},
}
MUST_OVERRIDE = {
    "incomplete-message-parsed": {"C02"},
    "upgrade-tail-dropped-in-handle": {"C02"},
}


def run_one(job):
    name, scratch, prop, builddir = job
    env = dict(os.environ, VX_REPO=scratch, VX_BUILD=builddir, VX_EVIDENCE_DIR=os.path.join(builddir, "evidence"),
               VX_REPLAYS_DIR=os.path.join(builddir, "replays"), VX_THREADS="4")
    if os.environ.get("VX_SELFTEST_NO_REPLAY"):
        env["VX_NO_REPLAY"] = "1"
    p = subprocess.run([os.path.join(VERIF, "check"), prop, "--tier", "quick"], cwd=VERIF, env=env, capture_output=True, text=True, timeout=1200)
    return name, prop, p.returncode, [l for l in p.stdout.split("\n") if l.startswith(("VIOLATION", "UNDECIDED", "obligation"))][:4]


def main():
    args = sys.argv[1:]
    which = args[0] if args and not args[0].startswith("--") else "all"
    only = args[args.index("--only") + 1].split(",") if "--only" in args else None
    jobs_n = int(args[args.index("--jobs") + 1]) if "--jobs" in args else 4
    manifest = json.load(open(os.path.join(VERIF, "MANIFEST.json")))
    props = [c["property_id"] for c in manifest["checks"]]
    if which not in ("all", "own"):
        props = [which]
    tmp = tempfile.mkdtemp(prefix="vx-selftest-")
    results = []
    worktrees = []
    try:
        jobs = []
        skipped = []
        for k, (name, rel, rx, repl, expect) in enumerate(MUTANTS):
            if only and name not in only:
                continue
            scratch = os.path.join(tmp, "m%02d" % k)
            subprocess.run(["git", "-C", REPO, "worktree", "add", "-f", "--detach", scratch, "HEAD"], capture_output=True)
            worktrees.append(scratch)
            path = os.path.join(scratch, rel)
            text = open(path).read()
            new, n = re.subn(rx, repl, text, count=1, flags=re.S)
            if n != 1 or new == text:
                skipped.append(name)
                continue
            open(path, "w").write(new)
            for prop in props:
                if which == "own":
                    # every mutant against the properties expected (or allowed) to report it only
                    exp = MUST_OVERRIDE.get(name, expect) or set()
                    if prop not in (set(exp) | MAY.get(name, set())):
                        continue
                jobs.append((name, scratch, prop, os.path.join(tmp, "b%02d-%s" % (k, prop))))
        with cf.ThreadPoolExecutor(max_workers=jobs_n) as ex:
            for name, prop, rc, lines in ex.map(run_one, jobs):
                expect = [m[4] for m in MUTANTS if m[0] == name][0]
                if name in MUST_OVERRIDE:
                    expect = MUST_OVERRIDE[name]
                want = expect is not None and prop in expect
                status = "ok"
                if want and rc != 1:
                    status = "SURVIVED"
                elif (not want) and rc == 1 and expect is not None and prop not in MAY.get(name, set()):
                    status = "OVER-ALARM"
                elif expect is None:
                    status = "info:%d" % rc
                results.append({"mutant": name, "property": prop, "exit": rc, "status": status, "lines": lines})
                if status not in ("ok",):
                    print("%-11s %-45s %s exit=%d %s" % (status, name, prop, rc, " | ".join(lines)[:200]))
    finally:
        for w in worktrees:
            subprocess.run(["git", "-C", REPO, "worktree", "remove", "--force", w], capture_output=True)
        shutil.rmtree(tmp, ignore_errors=True)
    summ = {"mutants": len(MUTANTS), "not_applicable_to_current_source": skipped, "runs": len(results),
            "survived": [(r["mutant"], r["property"]) for r in results if r["status"] == "SURVIVED"],
            "over_alarm": [(r["mutant"], r["property"]) for r in results if r["status"] == "OVER-ALARM"],
            "caught": sorted({r["mutant"] for r in results if r["status"] == "ok" and r["exit"] == 1}),
            "info": [(r["mutant"], r["property"], r["exit"]) for r in results if r["status"].startswith("info") and r["exit"] != 0]}
    print(json.dumps(summ))


if __name__ == "__main__":
    main()
