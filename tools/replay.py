#!/usr/bin/env python3
"""replay.py <obligation | Cxx.*> -- build the replay crate against /repo's current tree and run the witness search(es).
Prints the JSON lines of vx-replay.  Documents failures; never decides a property."""
import os
import subprocess
import sys

VERIF = os.path.dirname(os.path.dirname(os.path.abspath(__file__)))
env = dict(os.environ, CARGO_NET_OFFLINE="true", CARGO_TARGET_DIR=os.path.join(VERIF, "build", "replay-target"))
pat = sys.argv[1] if len(sys.argv) > 1 else "*"
try:
    b = subprocess.run(["cargo", "build", "--release", "--offline", "-q"], cwd=os.path.join(VERIF, "replay"), env=env,
                       capture_output=True, text=True, timeout=600)
    if b.returncode != 0:
        print('{"found": false, "replay_build_failed": true}')
        sys.exit(0)
    r = subprocess.run([os.path.join(env["CARGO_TARGET_DIR"], "release", "vx-replay"), pat], capture_output=True, text=True, timeout=600)
    sys.stdout.write(r.stdout)
except subprocess.TimeoutExpired:
    print('{"found": false, "replay_timeout": true}')
