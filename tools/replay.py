#!/usr/bin/env python3
"""replay.py <obligation | Cxx.*> -- build the replay crate against the tree under test (/repo, or $VX_REPO for scratch trees) and run
the witness search(es).  Prints the JSON lines of vx-replay.  Documents failures; never decides a property."""
import os
import shutil
import subprocess
import sys

VERIF = os.path.dirname(os.path.dirname(os.path.abspath(__file__)))
repo = os.environ.get("VX_REPO", "/repo")
build = os.environ.get("VX_BUILD") or os.path.join(VERIF, "build")
src = os.path.join(VERIF, "replay")
if os.path.realpath(repo) != "/repo":
    # scratch tree: private copy of the replay crate pointing at that tree
    src2 = os.path.join(build, "replay-src")
    shutil.rmtree(src2, ignore_errors=True)
    shutil.copytree(src, src2)
    p = os.path.join(src2, "Cargo.toml")
    txt = open(p).read().replace('path = "/repo/varlink"', 'path = "%s/varlink"' % repo).replace('path = "/repo/varlink_parser"', 'path = "%s/varlink_parser"' % repo)
    open(p, "w").write(txt)
    src = src2
env = dict(os.environ, CARGO_NET_OFFLINE="true", CARGO_TARGET_DIR=os.path.join(build, "replay-target"))
pat = sys.argv[1] if len(sys.argv) > 1 else "*"
try:
    b = subprocess.run(["cargo", "build", "--release", "--offline", "-q"], cwd=src, env=env, capture_output=True, text=True, timeout=900)
    if b.returncode != 0:
        print('{"found": false, "replay_build_failed": true}')
        sys.exit(0)
    if pat.startswith("C20") or pat.startswith("C18"):
        # the `varlink` binary of the tree under test (own target dir; the workspace's dependencies are vendored in the cargo registry)
        tdir = os.path.join(build, "cli-target")
        c = subprocess.run(["cargo", "build", "--release", "--offline", "-q", "-p", "varlink-cli"], cwd=repo,
                           env=dict(env, CARGO_TARGET_DIR=tdir), capture_output=True, text=True, timeout=1500)
        if c.returncode == 0:
            env["VX_CLI_BIN"] = os.path.join(tdir, "release", "varlink")
    if pat.startswith("C19"):
        tdir = os.path.join(build, "cert-target")
        c = subprocess.run(["cargo", "build", "--release", "--offline", "-q", "-p", "varlink-certification"], cwd=repo,
                           env=dict(env, CARGO_TARGET_DIR=tdir), capture_output=True, text=True, timeout=1500)
        if c.returncode == 0:
            env["VX_CERT_BIN"] = os.path.join(tdir, "release", "varlink-certification")
    r = subprocess.run([os.path.join(env["CARGO_TARGET_DIR"], "release", "vx-replay"), pat], env=env, capture_output=True, text=True, timeout=900)
    sys.stdout.write(r.stdout)
except subprocess.TimeoutExpired:
    print('{"found": false, "replay_timeout": true}')
