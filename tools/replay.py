#!/usr/bin/env python3
"""replay.py <obligation | Cxx.*> -- build the replay crate against the tree under test (/repo, or $VX_REPO for scratch trees) and run
the witness search(es).  Prints the JSON lines of vx-replay.  Documents failures; never decides a property."""
import os
import shutil
import subprocess
import sys

VERIF = os.path.dirname(os.path.dirname(os.path.abspath(__file__)))
repo = os.environ.get("VX_REPO", "/repo")
build = os.environ.get("VX_BUILD") or os.path.join(VERIF, "build")
src = os.path.join(VERIF, "replay")
if os.path.realpath(repo) != "/repo":
    # scratch tree: private copy of the replay crate pointing at that tree
    src2 = os.path.join(build, "replay-src")
    shutil.rmtree(src2, ignore_errors=True)
    shutil.copytree(src, src2)
    p = os.path.join(src2, "Cargo.toml")
    txt = open(p).read().replace('path = "/repo/varlink"', 'path = "%s/varlink"' % repo).replace('path = "/repo/varlink_parser"', 'path = "%s/varlink_parser"' % repo).replace('path = "/repo/varlink_generator"', 'path = "%s/varlink_generator"' % repo)
    open(p, "w").write(txt)
    src = src2
env = dict(os.environ, CARGO_NET_OFFLINE="true", CARGO_TARGET_DIR=os.path.join(build, "replay-target"))
pat = sys.argv[1] if len(sys.argv) > 1 else "*"
try:
    b = subprocess.run(["cargo", "build", "--release", "--offline", "-q"], cwd=src, env=env, capture_output=True, text=True, timeout=900)
    if b.returncode != 0:
        print('{"found": false, "replay_build_failed": true}')
        sys.exit(0)
    det = bool(os.environ.get("VX_REPLAY_DET"))
    if not det and (pat.startswith("C20") or pat.startswith("C18") or pat.startswith("C16")):
        # the `varlink` binary of the tree under test (own target dir; the workspace's dependencies are vendored in the cargo registry)
        tdir = os.path.join(build, "cli-target")
        c = subprocess.run(["cargo", "build", "--release", "--offline", "-q", "-p", "varlink-cli"], cwd=repo,
                           env=dict(env, CARGO_TARGET_DIR=tdir), capture_output=True, text=True, timeout=1500)
        if c.returncode == 0:
            env["VX_CLI_BIN"] = os.path.join(tdir, "release", "varlink")
    if not det and (pat.startswith("C19") or pat.startswith("C08") or pat.startswith("C16")):
        tdir = os.path.join(build, "cert-target")
        c = subprocess.run(["cargo", "build", "--release", "--offline", "-q", "-p", "varlink-certification"], cwd=repo,
                           env=dict(env, CARGO_TARGET_DIR=tdir), capture_output=True, text=True, timeout=1500)
        if c.returncode == 0:
            env["VX_CERT_BIN"] = os.path.join(tdir, "release", "varlink-certification")
    r = subprocess.run([os.path.join(env["CARGO_TARGET_DIR"], "release", "vx-replay"), pat], env=env, capture_output=True, text=True, timeout=900)
    out = r.stdout
    if pat[:3] in ("C08", "C16", "C18", "C19", "C20") and '"found":true' in out:
        # these searches drive real processes over sockets with timeouts: a failing history is reported only if it fails again on a second run
        import json, time
        time.sleep(1.0)
        r2 = subprocess.run([os.path.join(env["CARGO_TARGET_DIR"], "release", "vx-replay"), pat], env=env, capture_output=True, text=True, timeout=900)
        again = {}
        for l in r2.stdout.split("\n"):
            if l.startswith("{"):
                try:
                    d = json.loads(l)
                    again[d.get("obligation")] = d
                except ValueError:
                    pass
        lines = []
        for l in out.split("\n"):
            if l.startswith("{"):
                try:
                    d = json.loads(l)
                except ValueError:
                    lines.append(l)
                    continue
                if d.get("found") and not again.get(d.get("obligation"), {}).get("found"):
                    d["found"] = False
                    d["note"] = "failed once, did not fail again on a second run: not reported (timing)"
                    d["first_run_detail"] = d.pop("detail", None)
                    d["detail"] = None
                lines.append(json.dumps(d))
            else:
                lines.append(l)
        out = "\n".join(lines)
    sys.stdout.write(out)
except subprocess.TimeoutExpired:
    print('{"found": false, "replay_timeout": true}')
