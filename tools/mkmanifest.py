#!/usr/bin/env python3
"""writes /verif/MANIFEST.json from the table below (single source of truth for what is claimed)"""
import json
import os

VERIF = os.path.dirname(os.path.dirname(os.path.abspath(__file__)))

TECH = "contract-based deductive verification (Verus/Z3) of function text re-extracted from /repo on every run"
NOTE_COMMON = ("Trusted: Verus 0.2026.09.13 + Z3; the extractor's logged rewrite rules (DESIGN.md 2.2); assumed contracts of "
               "std/serde_json stand-ins listed in evidence.coverage.trusted_base (external_body / assume_specification / uninterp); ")

CLAIMED = {
    "C09": {
        "text": "Proof, for the REJECTION / ALL-OR-NOTHING-EMISSION SLICE of the property only: the three library entry points every front end goes through (generate: command-line tool; "
                "generate_with_options: build-script helpers; compile: procedural macros) are verified, for all inputs, to return Err(Parse) and write not one byte when the parser rejects the "
                "text read, Err(Io) and nothing written when the input cannot be read, and -- when they return Ok -- to have appended exactly the text of the token stream the code generator "
                "produced for exactly the definition the parser returned, with exactly the caller's options and tosource flag, once; whenever the code generator itself fails nothing is written. "
                "In every tier a witness search additionally drives the real functions with 236 rejected / unreadable inputs (bounded, not counted as proved). NOT claimed: that "
                "varlink_to_rust (quote! templates) terminates without panicking for every accepted definition, and that the emitted Rust compiles (rustc on an unbounded family of outputs); "
                "the thorough tier compiles the generator's output for a finite family of definitions as a bounded stand-in for that half.",
        "note": NOTE_COMMON + "IDL::try_from and varlink_to_rust are uninterpreted partial functions of their arguments (the parser's duplicate-detection half is unit idl); io::Read::read_to_string / "
                "io::Write::write_all are stand-in traits with assumed std semantics; `..Default::default()` and `map_err(Error::Parse)` are rewritten to the value / closure they denote (R60, R61); "
                "the cargo_build_* helpers (file creation, process::exit) and the proc-macro argument parsing are not under contract.",
        "ref": "5-C09",
    },
    "C10": {
        "category": "exploration",
        "technique": "BOUNDED exhaustive check of the real layout printer and parser (stand-in: no contract within the verifier's reach expresses the round trip), plus a small "
                     "contract-based part (Verus/Z3) showing the CLI and Display hand out get_multiline(0, w)",
        "text": "BOUNDED stand-in, not a proof: the layout printer is format!/String code and the parser a peg expansion, neither within the reach of the installed Verus (no str/format! "
                "reasoning) or Kani (format! exhausts memory), so the round-trip, idempotence and colour clauses are decided by exhaustive enumeration on the real code up to a stated bound: "
                "every definition of a finite family (about 3900 definitions, the exact count is in the evidence: with/without interface documentation x 4 documentation layouts, one with CRLF line endings, x every sequence of <= 2 of 18 member templates, "
                "every <= 3-deep decoration prefix of ?, [], [string] in front of anonymous structs and enums, triples over 6 templates) x every width 0..=100 and 1000: the top-level rendering "
                "must be accepted by the parser, give the same interface name / documentation / member names in order / field names / types (compared by an independent structural dump), "
                "re-format to the same bytes, and equal the colored rendering once escape sequences are removed; Display equals the width-80 rendering. The contract-based part (Verus, unbounded) "
                "covers only: varlink_format (the command-line tool) returns Ok only after printing get_multiline(0, w) / get_multiline_colored(0, w) of exactly the definition parsed from the "
                "file, w = the columns argument if it parses, else 80, and Display for IDL / VTypeExt / VStructOrEnum / Argument / VEnum write exactly get_multiline(0, 80) / get_oneline().",
        "note": NOTE_COMMON + "for the bounded part: definitions outside the family and widths above 100 (other than 1000) are not explored; the structural dump and the escape-sequence stripper "
                "are part of the oracle; for the contract part: get_multiline / get_multiline_colored / get_oneline / the parser are uninterpreted functions, File::open + read_to_string, "
                "str::parse::<usize>, println! are stand-ins with assumed contracts.",
        "ref": "5-C10",
    },
    "C08": {
        "text": "Proof, for FIVE GENERATED INSTANCES and the dispatch / stub clauses of the property only: for the code the repository's own generator emits (regenerated from the tree "
                "under test on every run) for each interface definition the repository generates code for (org.varlink.certification, org.example.ping, org.example.more, "
                "org.example.network, org.varlink.resolver -- units gencert, genping, genmore, gennetwork, genresolver), the server dispatch hands a request whose method is `<interface>.<Method>` "
                "to exactly the implementation method of that name, with exactly the values the request's parameters decode to, each in its own position; a method that takes parameters "
                "and gets none is answered with InvalidParameter(parameters), ill-typed parameters with InvalidParameter and an error return, a method the interface lacks with "
                "MethodNotFound naming it; the dispatch meets the library's contract for Interface::call (one answer per request); every generated client stub builds a MethodCall whose "
                "method is `<interface>.<Method>` and whose arguments are the stub's parameters under the field names of the interface definition. NOT claimed: any other interface "
                "definition (the generator's templates are quote! code and are not verified as such), the JSON shape serde derives for the generated types (enums, maps, string sets, "
                "optionals), replies and declared errors, and the client/server round trip of values.",
        "note": NOTE_COMMON + "G1: the verified text is the output of varlink-rust-generator built from the tree under test (formatted with rustfmt when available; raw-identifier prefixes of non-keywords "
                "dropped); the expected wire names are computed from the interface definition text by tools/mkgencert.py, the method list and parameter types are read from the generator's "
                "output when the fragment is written (a changed method list makes the check UNDECIDED); parameter bindings named `int` / `r#struct` are renamed (the fields are not); "
                "MethodCall::new, the user implementation of the interface (whose preconditions are the obligations) and serde_json::from_value are stand-ins with assumed contracts.",
        "ref": "5-C08",
    },
    "C11": {
        "text": "Proof, for the DUPLICATE-DETECTION / MIRRORING SLICE of the property only: IDL::from_token, for every member list the grammar can hand it, records the member names "
                "of each kind in order of appearance, keys each map by exactly those names, puts a message naming every name that is defined twice (within or across methods, types "
                "and errors) into the error set, and leaves the error set empty exactly when all member names are pairwise distinct; IDL::try_from returns Ok exactly when the grammar "
                "accepts the text and that error set is empty, Err(Idl) when it is not, Err(Parse) when the grammar rejects. NOT claimed: which texts the peg grammar accepts "
                "(interface-name rule, type expressions, trivia) and the mirroring of fields, types and documentation inside members -- the peg::parser! expansion is outside the verifier's reach.",
        "note": NOTE_COMMON + "ParseInterface (the generated parser) is an uninterpreted partial function of the text, assumed to call from_token with the members in source order; BTreeMap/HashSet/Vec::contains/format! "
                "are stand-ins; seeded changes to the grammar itself will not be detected by this check.",
        "ref": "5-C11",
    },
    "C16": {
        "text": "Proof, for the ADDRESS-FORM and ACTIVATION clauses of the property only: varlink_connect (client) and Listener::new (server, activated or not) return InvalidAddress for every "
                "address that starts with neither `tcp:` nor `unix:`, succeed only for those schemes, and cut `;parameters` off before connecting / binding; "
                "activation_listener returns a descriptor only when LISTEN_FDS parses to n >= 1 and LISTEN_PID parses to this process id (3 for one fd, otherwise 3 + the index of "
                "the first `varlink` entry of LISTEN_FDNAMES), and an activated Listener is only ever built from such a descriptor; on the client side varlink_exec spawns `sh -c` with "
                "VARLINK_ADDRESS=unix:<socket path> (the address it returns to the caller), LISTEN_FDS=1 and LISTEN_FDNAMES=varlink in the command's environment and a script that makes "
                "the shell export its own pid as LISTEN_PID before `exec`; its pre_exec closure does not touch std::env and, whenever it returns Ok, has made descriptor 3 the "
                "listening socket without the close-on-exec flag (dup2 onto 3, or clearing the flag when the socket already is 3); varlink_bridge gives the bridge command a stdin and a stdout that "
                "own two different descriptors of the socket pair. NOT claimed: that sh, exec and the service behave, and that all transports yield the same reply sequence (no "
                "function-level contract).",
        "note": NOTE_COMMON + "str::strip_prefix/starts_with, split(';'), split(':').enumerate(), parse::<usize>, env::var, process::id and socket bind/connect are stand-ins with assumed contracts; "
                "`unsafe` from_raw_fd blocks are opaque; `#[cfg(windows)]` code is dropped; std::process::Command is a by-value builder stand-in recording arguments and environment whose "
                "spawn() precondition is the obligation; dup2 / fcntl / is-close-on-exec are 'has happened' facts about the child's descriptor 3; env::set_var is given `requires false` "
                "(std: the environment must not be used in pre_exec).",
        "ref": "5-C16",
    },
    "C18": {
        "text": "Proof, for the FORWARDING SLICE of the property only (non-upgraded mode and the byte copy): proxy::copy writes every byte it takes from its reader to its writer, in order "
                "and unchanged, returns Ok only at the reader's end of file having written all of it, and never retracts what it forwarded on an error; in proxy::handle every request read "
                "from the client is forwarded unchanged except that org.varlink.service.GetInfo is renamed to org.varlink.resolver.GetInfo; what is written to the service connection is "
                "exactly the serialised request and one NUL, on a connection made to the address the resolver returned for the request's interface (the text before the last dot; the "
                "CONFIGURED resolver address for org.varlink.resolver); a reply is awaited only if the request is not oneway; while relaying, every byte read from the service is written "
                "to the client in order and unchanged, and the relay of one request ends only at the service's end of file, after a reply without `continues`, or on upgrade; the "
                "`unreachable!()` is unreachable; proxy::handle_connect (bridge --connect / --activate / --bridge) cannot panic for a connection made by any of the three constructors, with or "
                "without a child process. NOT claimed: the upgraded mode's and handle_connect's copy threads and shutdown order (cut; only copy() itself is verified), WatchClose (epoll), "
                "process exit status, and equality with talking to the service directly beyond the above.",
        "note": NOTE_COMMON + "handle<R, W> is specialised to concrete stand-in reader/writer types (T8); the unsafe from_raw_fd BufReader construction, Connection, the resolver client, varlink_connect, "
                "VarlinkStream (target / per-handle log / prophecy of incoming bytes), WatchClose and Call::reply_interface_not_found are stand-ins with assumed contracts; Box<dyn Error> "
                "is a unit error type (T10); termination of the loops is not claimed; copy() assumes fewer than 2^64 bytes per stream (its u64 byte counter).",
        "ref": "5-C18",
    },
    "C19": {
        "text": "Proof, for the STEP-ORDER / CLIENT-ID / CALL-MODE / VALUE-COMPARISON SLICE of the property: ClientIds::check_client_id returns true only if the step table (after expiring old "
                "entries) has the client id at exactly the step asked for, then sets that client's step to the given next step, never changes another client's step (entries only "
                "disappear by expiry) and changes nothing when it returns false; new_client_id registers step Test01 for exactly the id it returns; every step method Test01..Test11 "
                "and End first checks the client id against its own step name under the table lock and, if the table as found does not have the client at that step (unknown id, step out "
                "of order), sends ClientIdError as its only reply and runs nothing else; the part of a step that sends its success reply is reachable only with a request whose method is "
                "the step's own name, whose call mode is the step's own (more exactly for Test10, oneway exactly for Test11, neither for the others, never upgrade), and whose parameters "
                "decoded to the step's (generated) argument type and were compared equal to the value the step expects; every other request ends in CertificationError. "
                "NOT claimed: that the expected values are the ones of the certification protocol (they are the code's own constants), that derived == on the generated types is "
                "structural equality, Start's own check, the generated dispatch, and that concurrent clients make progress (the RwLock is std's; interference between acquisitions is "
                "modelled, exclusivity assumed).",
        "note": NOTE_COMMON + "T12: in each step method the statements up to and including its check_call_*! invocation are the verified text; the statements after it (building and sending the success reply) are "
                "replaced by an opaque continuation whose PRECONDITION is the obligation (the extractor refuses if the dropped text mentions `self`); the check_call_*! macros are extracted "
                "verbatim (reference patterns rewritten to match-ergonomics form); the argument structs are taken from the output of the repository's own generator, run on the repository's "
                "interface definition on every check (G1); `&self` is specialised to `&mut self` (T8) so that the lock stand-in can record what an acquisition found; `&mut dyn Call_TestNN` "
                "is specialised to one flattened stand-in trait (T8c) whose contracts (reply_client_id_error, reply_certification_error, get_request) are ASSUMED, as is `the dispatch calls "
                "a step with the request it is serving`; VecDeque, StringHashMap, Instant, DefaultHasher, serde_json::from_value are stand-ins with assumed contracts.",
        "ref": "5-C19",
    },
    "C20": {
        "text": "Proof, for the SPLIT / ONE-PRINT-PER-REPLY / EXIT-STATUS SLICE of the property only: in varlink_call, without --activate/--bridge the argument is cut at its LAST '/', "
                "the connection is made to the text before it and the method called is the text after it; an argument without '/' is called as a whole at the address the resolver "
                "returned for the text before its LAST '.'; with --activate/--bridge the whole argument is the method. print_call_ret returns Err for every error reply and, when it returns "
                "Ok, has printed (one println) the rendering of exactly the value it was given; varlink_call returns Ok only if every reply it obtained was Ok and was printed and, with "
                "--more, the reply iterator was run to its end. NOT claimed: clap's argument parsing, main()'s mapping of Err to exit status 1, what is written to stderr for an error "
                "reply (that closure is cut), colours, and the JSON text colored_json produces (render() is uninterpreted).",
        "note": NOTE_COMMON + "Connection::with_*, MethodCall::{new,call,more}, the reply iterator, the resolver client, serde_json::from_str, ColoredFormatter and println! are stand-ins with assumed "
                "contracts; `printed(text)` is an uninterpreted stable fact established only by the println! stand-in; str indices are treated as character positions; Box<dyn Error> "
                "is replaced by a unit error type (T10); the `for` over the reply iterator is desugared to loop/next (R33); termination of --more is not claimed.",
        "ref": "5-C20",
    },
    "C15": {
        "text": "Proof of the sequential obligations under an assumed clock model: in listen()'s accept loop a timeout error is returned only when the ghost idle clock has "
                "reached idle_timeout*1000 ms since the last accepted connection AND the pool counter just read is 0 (nothing queued or being served); with a stop flag the "
                "flag is polled every 100 ms and Ok(()) is returned only from such a poll; ThreadPool::drop sends one Terminate per worker behind everything queued and joins "
                "every worker; the worker loop leaves only on Terminate; Listener::drop calls fs::remove_file on the path of a socket the server bound itself.",
        "note": NOTE_COMMON + "clock model: Listener::accept(t) returns Err(Timeout) only after >= t ms without a connection (assumed; select() and real time are outside the verifier); "
                "`pool` and `listener` are dropped on every return path by Rust's scope rules (not modelled by Verus); FIFO channel, join and fs::remove_file semantics are stand-ins.",
        "ref": "5-C15",
    },
    "C17": {
        "text": "Proof (hand-written serde code only): Serialize for StringHashSet writes, through any Serializer obeying the SerializeMap protocol, a map declared with "
                "the set's length whose keys are exactly the elements (once each) and whose values are all `{}`; the Deserialize map visitor obeys the strict key/value "
                "alternation of MapAccess (so text, bytes and Value deserializers all accept it) and returns exactly the key set; visit_unit returns the empty set.",
        "note": NOTE_COMMON + "serde's Serializer/SerializeMap/MapAccess protocols are stand-in traits (assumed); HashSet<String> is a stand-in (iteration yields each element once); "
                "derive-generated code for Request/Reply/ServiceInfo and serde_json itself are trusted, so the full round trip of those types is NOT claimed.",
        "ref": "5-C17",
    },
    "C12": {
        "text": "Proof, for the DIAGNOSTIC SLICE of the property only and under an ASSUMED contract of the peg runtime's error location (1 <= line <= number of lines of the input, "
                "1 <= column <= length of that line + 1): the code of IDL::try_from that turns a parser error into Error::Parse cannot panic (index arithmetic, nth(..).unwrap()), reports "
                "as `line` the text of exactly the input line the location names (lines split at '\\n') and as `column` the location's column, which lies within that line or just past its "
                "end. NOT claimed: that parsing returns for every input, terminates and is stack-safe (the peg::parser! expansion is outside the verifier's reach), the location contract "
                "itself (it is exercised, not proved, by the thorough tier's witness search over ~1900 corrupted definitions), and Display of the error (thiserror derive).",
        "note": NOTE_COMMON + "the closure passed to map_err in try_from is lifted into a named function of (input text, error) (T9); `value.split('\\n').nth(k)` is a stand-in with the assumed "
                "std semantics; seeded changes to the grammar, to recursion depth or to Display will not be detected by this check.",
        "ref": "5-C12",
    },
    "C14": {
        "text": "Proof: ThreadPool::new establishes and execute preserves workers.len() <= max_workers (one connection per worker: the bound) and the provisioning "
                "invariant `workers == max or counter <= workers` where the counter is raised by execute before the job is sent; the worker loop is verified to run the job "
                "before lowering the counter and never to raise it (the rely execute's proof uses).",
        "note": NOTE_COMMON + "rely/guarantee reading of the shared counter: an acquisition by the acceptor yields a value <= the last one it saw (workers only decrement: "
                "obligation C14.w-monotone); thread scheduling itself is not explored; counter arithmetic is assumed not to reach usize::MAX; thread::spawn/mpsc are stand-ins.",
        "ref": "5-C14",
    },
    "C07": {
        "text": "Proof: MethodCall::send/recv/next/oneway/more and From<Reply> for ErrorKind satisfy, for all connection states, replies and flags: a refused send "
                "(object already sent, or connection busy) touches nothing and writes nothing; a successful non-oneway send takes both slots; recv returns them exactly "
                "on a reply without continues:true; an error reply maps to the ErrorKind determined by its name; success exactly when there is no error member.",
        "note": NOTE_COMMON + "the RwLock is modelled as exclusive access for the guard's lifetime (std exclusivity, no poisoning: assumed); interleavings of several "
                "threads are reduced to sequences of these atomic transitions by that assumption and are not explored; `?` error conversion values are not characterised by Verus.",
        "ref": "5-C07",
    },
    "C01": {
        "text": "Proof: handle()'s contract (every complete frame taken from the reader is parsed and answered per the reply discipline, replies appended "
                "in frame order, nothing consumed is lost, Ok without upgrade only at EOF/incomplete tail) is discharged for all byte streams, all "
                "read segmentations and all iteration counts; VarlinkService::call, the built-in interface and every reply helper carry `answered`.",
        "note": NOTE_COMMON + "registered Interface::call implementations (user/generated code) are ASSUMED to reply per `answers` or return Err; "
                "the listen() worker loop half is covered by the listen unit when built.",
        "ref": "5-C01",
    },
    "C02": {
        "text": "Proof: at every exit of handle() the bytes removed from the reader are exactly wire(frames) ++ tail ++ what is left, with NUL-free frames and a "
                "NUL-free tail when not upgraded; the BufReader stand-in leaves the amount pulled per read unconstrained, so the clause holds for every segmentation.",
        "note": NOTE_COMMON + "BufReader::read_until contract (prelude/bufreader.vrs) is assumed; determinism of registered interfaces is needed for byte-equality of replies across segmentations.",
        "ref": "5-C02",
    },
    "C03": {
        "text": "Proof: VarlinkService::new establishes key==name; call() routes to the built-in, to exactly the registered entry, or writes InterfaceNotFound{iface}; the built-in "
                "answers GetInfo / GetInterfaceDescription / MethodNotFound as specified (builtin_post); handle() calls it with the prefix before the LAST dot.",
        "note": NOTE_COMMON + "HashMap stand-in (finite map, unique keys); generated MethodNotFound fallback lives in quote! templates and is assumed.",
        "ref": "5-C03",
    },
    "C06": {
        "text": "Proof: handle() never writes for a frame that does not parse and never returns Ok past one; every frame before it is served; all arithmetic / unwrap / "
                "index / callee preconditions inside handle, VarlinkService::call, the built-in interface and the reply helpers are discharged for all inputs (no panic).",
        "note": NOTE_COMMON + "serde_json recursion limit and panics inside dependencies are assumed away; cross-connection scheduling effects are not claimed.",
        "ref": "5-C06",
    },
    "C04": {
        "text": "Proof: every server-side reply writer (reply_struct, reply_parameters and every helper that funnels into them) is verified, "
                "for all Call states and all replies, to leave the writer log unchanged when the request carries oneway:true.",
        "note": NOTE_COMMON + "Call.writer is a public field: direct writes by user code are outside the claim; client half: MethodCall::send(oneway)/oneway() leave the reader in the connection.",
        "ref": "5-C04",
    },
    "C05": {
        "text": "Proof: reply_struct's contract (gate: continues without more => Err(CallContinuesMismatch) and nothing written; "
                "wire: the record written is exactly the reply stamped with the call's continues flag) holds for all inputs.",
        "note": NOTE_COMMON + "serde_json::to_string is an uninterpreted total function of the reply.",
        "ref": "5-C05",
    },
}

NOT_APPLICABLE = {
    "C13": "quantifies over thread schedules and timing of 2..64 OS connections; the installed Verus has no thread model and Kani has no threads (DESIGN.md section 7)",
}


PENDING = {}


def main():
    props = [json.loads(l) for l in open(os.path.join(VERIF, "properties.jsonl"))]
    checks = []
    na = []
    for p in props:
        pid = p["id"]
        if pid in CLAIMED:
            c = CLAIMED[pid]
            checks.append({
                "property_id": pid,
                "quick_cmd": "./check %s --tier quick" % pid,
                "thorough_cmd": "./check %s --tier thorough" % pid,
                "evidence_file": "evidence/%s.json" % pid,
                "replay_cmd_template": "cat {path}",
                "engine": "verus-units",
                "level_claimed": {"category": c.get("category", "proof"), "text": c["text"], "design_ref": "DESIGN.md section " + c["ref"]},
                "level_note": c["note"],
                "technique": c.get("technique", TECH),
            })
        else:
            na.append({"property_id": pid, "reason": NOT_APPLICABLE.get(pid) or PENDING.get(pid) or "not built yet (see DESIGN.md section 1)"})
    m = {
        "version": 1,
        "setup_cmd": "./setup.sh",
        "hooks": {
            "guard": "varlink_rust_verif",
            "enable": "RUSTFLAGS='--cfg varlink_rust_verif' (no hook is needed by the Verus units; none is installed)",
            "baseline_off_cmd": "cd /repo && cargo nextest run --workspace --no-fail-fast --tool-config-file pb:/w/lib/nextest.toml --profile pb --test-threads 8 --offline",
            "source_commits": [],
            "add_only": True,
        },
        "engines": [{
            "name": "verus-units", "path": "check",
            "serves_properties": sorted(CLAIMED),
            "kind_free_text": "tools/vx.py copies the real function bodies out of /repo into single-file Verus units "
                              "(units/*.vrs carry the contracts), ./check runs verus on them, maps failed obligations to property tags, "
                              "runs vacuity twins and the assumption scan, writes evidence",
        }],
        "checks": checks,
        "not_applicable": na,
        "notes": "exit 0 = all obligations of the property discharged; exit 1 = VIOLATION line; exit 2 = UNDECIDED (never an alarm). "
                 "fix: commits in /repo are listed in known_findings.json as fixed entries.",
    }
    with open(os.path.join(VERIF, "MANIFEST.json"), "w") as f:
        json.dump(m, f, indent=1)
    print("MANIFEST.json: %d checks, %d not_applicable" % (len(checks), len(na)))


if __name__ == "__main__":
    main()
