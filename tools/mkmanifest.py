#!/usr/bin/env python3
"""writes /verif/MANIFEST.json from the table below (single source of truth for what is claimed)"""
import json
import os

VERIF = os.path.dirname(os.path.dirname(os.path.abspath(__file__)))

TECH = "contract-based deductive verification (Verus/Z3) of function text re-extracted from /repo on every run"
NOTE_COMMON = ("Trusted: Verus 0.2026.09.13 + Z3; the extractor's logged rewrite rules (DESIGN.md 2.2); assumed contracts of "
               "std/serde_json stand-ins listed in evidence.coverage.trusted_base (external_body / assume_specification / uninterp); ")

CLAIMED = {
    "C04": {
        "text": "Proof: every server-side reply writer (reply_struct, reply_parameters and every helper that funnels into them) is verified, "
                "for all Call states and all replies, to leave the writer log unchanged when the request carries oneway:true.",
        "note": NOTE_COMMON + "Call.writer is a public field: direct writes by user code are outside the claim.",
        "ref": "5-C04",
    },
    "C05": {
        "text": "Proof: reply_struct's contract (gate: continues without more => Err(CallContinuesMismatch) and nothing written; "
                "wire: the record written is exactly the reply stamped with the call's continues flag) holds for all inputs.",
        "note": NOTE_COMMON + "serde_json::to_string is an uninterpreted total function of the reply.",
        "ref": "5-C05",
    },
}

NOT_APPLICABLE = {
}

PENDING = {}


def main():
    props = [json.loads(l) for l in open(os.path.join(VERIF, "properties.jsonl"))]
    checks = []
    na = []
    for p in props:
        pid = p["id"]
        if pid in CLAIMED:
            c = CLAIMED[pid]
            checks.append({
                "property_id": pid,
                "quick_cmd": "./check %s --tier quick" % pid,
                "thorough_cmd": "./check %s --tier thorough" % pid,
                "evidence_file": "evidence/%s.json" % pid,
                "replay_cmd_template": "cat {path}",
                "engine": "verus-units",
                "level_claimed": {"category": "proof", "text": c["text"], "design_ref": "DESIGN.md section " + c["ref"]},
                "level_note": c["note"],
                "technique": c.get("technique", TECH),
            })
        else:
            na.append({"property_id": pid, "reason": NOT_APPLICABLE.get(pid) or PENDING.get(pid) or "not built yet (see DESIGN.md section 1)"})
    m = {
        "version": 1,
        "setup_cmd": "./setup.sh",
        "hooks": {
            "guard": "varlink_rust_verif",
            "enable": "RUSTFLAGS='--cfg varlink_rust_verif' (no hook is needed by the Verus units; none is installed)",
            "baseline_off_cmd": "cd /repo && cargo test --workspace --no-fail-fast --offline",
            "source_commits": [],
            "add_only": True,
        },
        "engines": [{
            "name": "verus-units", "path": "check",
            "serves_properties": sorted(CLAIMED),
            "kind_free_text": "tools/vx.py copies the real function bodies out of /repo into single-file Verus units "
                              "(units/*.vrs carry the contracts), ./check runs verus on them, maps failed obligations to property tags, "
                              "runs vacuity twins and the assumption scan, writes evidence",
        }],
        "checks": checks,
        "not_applicable": na,
        "notes": "exit 0 = all obligations of the property discharged; exit 1 = VIOLATION line; exit 2 = UNDECIDED (never an alarm). "
                 "fix: commits in /repo are listed in known_findings.json as fixed entries.",
    }
    with open(os.path.join(VERIF, "MANIFEST.json"), "w") as f:
        json.dump(m, f, indent=1)
    print("MANIFEST.json: %d checks, %d not_applicable" % (len(checks), len(na)))


if __name__ == "__main__":
    main()
