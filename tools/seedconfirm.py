#!/usr/bin/env python3
"""seedconfirm.py <round-dir> <log> -- confirm the seeded changes a round of sub-agents left in <round-dir>/<P>/out/<n>/ (patch.diff, demo.rs, HOWTO.txt):
in the agent's own scratch worktree (clean HEAD of /repo): the demo passes; with the patch applied the demo fails; with the patch applied (demo removed) the
existing tests of the touched crates still pass.  Copies each confirmed seed to seeded/<P>-<k>/ (next free k) and appends one line per seed to <log>."""
import concurrent.futures as cf, json, os, re, shutil, subprocess, sys

VERIF = os.path.dirname(os.path.dirname(os.path.abspath(__file__)))
SEEDED = os.path.join(VERIF, "seeded")
rd, log = sys.argv[1], sys.argv[2]

def sh(cmd, cwd, env, timeout=1500):
    try:
        p = subprocess.run(cmd, cwd=cwd, env=env, capture_output=True, text=True, timeout=timeout, shell=True)
        return p.returncode, p.stdout + p.stderr
    except subprocess.TimeoutExpired:
        return 124, "timeout"

def last_result(out):
    ls = [l for l in out.split("\n") if l.startswith("test result:")]
    return ls[-1] if ls else out.strip().split("\n")[-1][:200]

def one_prop(P):
    wt = os.path.join(rd, P)
    env = dict(os.environ, CARGO_NET_OFFLINE="true", CARGO_TARGET_DIR=os.path.join(wt, "target"))
    rows = []
    for n in sorted(os.listdir(os.path.join(wt, "out"))):
        od = os.path.join(wt, "out", n)
        if not os.path.exists(os.path.join(od, "patch.diff")):
            continue
        howto = open(os.path.join(od, "HOWTO.txt")).read() if os.path.exists(os.path.join(od, "HOWTO.txt")) else ""
        m = re.search(r"cargo test --offline -p (\S+) --test (seed_demo_\w+)", howto)
        crate, tname = (m.group(1), m.group(2)) if m else ("varlink", "seed_demo_%s" % n)
        cdir = {"varlink-cli": "varlink-cli"}.get(crate, crate)
        demo_dst = os.path.join(wt, cdir, "tests", tname + ".rs")
        sh("git checkout -- . && git clean -fdq -e out -e target -e PROMPT.txt -e PROPERTY.json", wt, env)
        os.makedirs(os.path.dirname(demo_dst), exist_ok=True)
        shutil.copy(os.path.join(od, "demo.rs"), demo_dst)
        demo_cmd = "cargo test --offline -p %s --test %s" % (crate, tname)
        rc0, o0 = sh(demo_cmd, wt, env)
        rca, oa = sh("git apply out/%s/patch.diff" % n, wt, env)
        rc1, o1 = sh(demo_cmd, wt, env)
        os.remove(demo_dst)
        crates = sorted({"varlink", "varlink_parser", "varlink_generator", crate})
        rc2, o2 = sh("timeout 900 cargo test --offline " + " ".join("-p " + c for c in crates), wt, env)
        touched = subprocess.run("git diff --stat | tail -1", cwd=wt, shell=True, capture_output=True, text=True).stdout.strip()
        sh("git checkout -- . && git clean -fdq -e out -e target -e PROMPT.txt -e PROPERTY.json", wt, env)
        rows.append({"prop": P, "n": n, "crate": crate, "demo_on_HEAD": rc0, "apply": rca, "demo_with_patch": rc1, "tests_with_patch": rc2,
                     "base": last_result(o0), "patched": last_result(o1), "tests": last_result(o2), "diffstat": touched, "demo_cmd": demo_cmd, "test_crates": crates})
    return rows

props = sorted(d for d in os.listdir(rd) if os.path.isdir(os.path.join(rd, d, "out")))
if len(sys.argv) > 3:
    props = [p for p in props if p in sys.argv[3:]]
allrows = []
with cf.ThreadPoolExecutor(max_workers=5) as ex:
    for rows in ex.map(one_prop, props):
        allrows += rows
with open(log, "a") as f:
    for r in allrows:
        ok = r["demo_on_HEAD"] == 0 and r["apply"] == 0 and r["demo_with_patch"] not in (0, 124) and r["tests_with_patch"] == 0
        name = None
        if ok:
            k = 1
            while os.path.exists(os.path.join(SEEDED, "%s-%d" % (r["prop"], k))):
                k += 1
            name = "%s-%d" % (r["prop"], k)
            dst = os.path.join(SEEDED, name)
            os.makedirs(dst)
            od = os.path.join(rd, r["prop"], "out", r["n"])
            shutil.copy(os.path.join(od, "patch.diff"), os.path.join(dst, "patch.diff"))
            shutil.copy(os.path.join(od, "demo.rs"), os.path.join(dst, "seed_demo.rs"))
            if os.path.exists(os.path.join(od, "HOWTO.txt")):
                shutil.copy(os.path.join(od, "HOWTO.txt"), os.path.join(dst, "agent_notes.md"))
            open(os.path.join(dst, "agent_demo_cmd.txt"), "w").write("copy seed_demo.rs to <crate>/tests/ as named below, then: " + r["demo_cmd"] + "\n")
            json.dump(r, open(os.path.join(dst, "confirm.json"), "w"), indent=1)
        line = "%s (%s/out/%s) demo_on_HEAD=%s demo_with_patch=%s tests_with_patch(%s)=%s | base: %s | patched: %s | tests: %s%s" % (
            name or "REJECTED", r["prop"], r["n"], r["demo_on_HEAD"], r["demo_with_patch"], ",".join(r["test_crates"]), r["tests_with_patch"], r["base"], r["patched"], r["tests"],
            "" if ok else " | NOT CONFIRMED")
        print(line)
        f.write(line + "\n")
