#!/usr/bin/env python3
"""seedrun.py [--scratch] [--jobs N] [<seed-dir-name> ...]
Runs every claimed check against each seeded change in /verif/seeded/<name>/patch.diff.
default mode: apply the patch to /repo (git apply), run the checks as they are registered (with replay), undo (git checkout -- .)
--scratch   : apply to a scratch copy of /repo/varlink/src (VX_REPO), replay disabled, several in parallel (fast triage)
Writes seeded/<name>/result.json ({property: exit code, lines}) and prints a table."""
import concurrent.futures as cf
import json, os, shutil, subprocess, sys, tempfile

VERIF = os.path.dirname(os.path.dirname(os.path.abspath(__file__)))
SEEDED = os.path.join(VERIF, "seeded")
if "--dir" in sys.argv:
    SEEDED = os.path.join(VERIF, sys.argv[sys.argv.index("--dir") + 1])

def props():
    return [c["property_id"] for c in json.load(open(os.path.join(VERIF, "MANIFEST.json")))["checks"]]

def run_check(prop, env):
    p = subprocess.run([os.path.join(VERIF, "check"), prop], cwd=VERIF, env=env, capture_output=True, text=True, timeout=1800)
    return prop, p.returncode, [l for l in p.stdout.split("\n") if l.startswith(("VIOLATION", "UNDECIDED", "obligation", "KNOWN"))][:5]

def main():
    args = sys.argv[1:]
    scratch = "--scratch" in args
    jobs = int(args[args.index("--jobs") + 1]) if "--jobs" in args else 3
    skip = set()
    for fl in ("--jobs", "--dir", "--props"):
        if fl in args:
            skip.add(args[args.index(fl) + 1])
    names = [a for a in args if not a.startswith("--") and a not in skip] or sorted(d for d in os.listdir(SEEDED) if os.path.exists(os.path.join(SEEDED, d, "patch.diff")))
    own = "--own" in args
    only_props = args[args.index("--props") + 1].split(",") if "--props" in args else None
    for name in names:
        patch = os.path.join(SEEDED, name, "patch.diff")
        res = {}
        if scratch:
            tmp = tempfile.mkdtemp(prefix="vx-seed-")
            try:
                subprocess.run(["git", "-C", "/repo", "worktree", "add", "-f", "--detach", os.path.join(tmp, "wt"), "HEAD"], capture_output=True)
                a = subprocess.run(["git", "-C", os.path.join(tmp, "wt"), "apply", patch], capture_output=True, text=True)
                if a.returncode != 0:
                    print(name, "patch does not apply:", a.stderr[:200]); continue
                envs = []
                for p in ([name.split("-")[0]] if own else (only_props or props())):
                    b = os.path.join(tmp, "b-" + p)
                    envs.append((p, dict(os.environ, VX_REPO=os.path.join(tmp, "wt"), VX_BUILD=b, VX_EVIDENCE_DIR=os.path.join(b, "ev"), VX_REPLAYS_DIR=os.path.join(SEEDED, name, "replays"), VX_THREADS="4")))
                with cf.ThreadPoolExecutor(max_workers=jobs) as ex:
                    for prop, rc, lines in ex.map(lambda pe: run_check(*pe), envs):
                        res[prop] = {"exit": rc, "lines": lines}
            finally:
                subprocess.run(["git", "-C", "/repo", "worktree", "remove", "--force", os.path.join(tmp, "wt")], capture_output=True)
                shutil.rmtree(tmp, ignore_errors=True)
        else:
            a = subprocess.run(["git", "-C", "/repo", "apply", patch], capture_output=True, text=True)
            if a.returncode != 0:
                print(name, "patch does not apply:", a.stderr[:200]); continue
            try:
                env = dict(os.environ, VX_EVIDENCE_DIR=os.path.join(VERIF, "build", "seed-evidence"), VX_REPLAYS_DIR=os.path.join(VERIF, "build", "seed-replays", name))
                for p in props():
                    prop, rc, lines = run_check(p, env)
                    res[prop] = {"exit": rc, "lines": lines}
            finally:
                subprocess.run(["git", "-C", "/repo", "checkout", "--", "."], capture_output=True)
        json.dump({"mode": "scratch worktree of /repo with the patch applied (replay enabled, built against that tree)" if scratch else "applied to /repo (as registered, replay enabled)", "results": res}, open(os.path.join(SEEDED, name, ("result.own.json" if own else ("result.props.json" if only_props else "result.scratch.json")) if scratch else "result.json"), "w"), indent=1)
        print("%-8s %s" % (name, " ".join("%s:%s" % (p, {0: "ok", 1: "VIOL", 2: "und"}.get(r["exit"], r["exit"])) for p, r in sorted(res.items()))))

if __name__ == "__main__":
    main()
