#!/usr/bin/env python3
"""benignmeta.py -- writes benign/README.md from benign/*/result.scratch.json (behaviour-preserving refactorings: no check may print VIOLATION)"""
import json, os, glob
VERIF = os.path.dirname(os.path.dirname(os.path.abspath(__file__)))
rows = []
alarms = 0
for d in sorted(glob.glob(os.path.join(VERIF, "benign", "B?-?"))):
    p = os.path.join(d, "result.scratch.json")
    if not os.path.exists(p):
        continue
    res = json.load(open(p))["results"]
    viol = [k for k, r in sorted(res.items()) if r["exit"] == 1]
    und = [k for k, r in sorted(res.items()) if r["exit"] == 2]
    ok = [k for k, r in sorted(res.items()) if r["exit"] == 0]
    alarms += len(viol)
    why = ""
    for k in und:
        if res[k]["lines"]:
            why = res[k]["lines"][0].split("reason=")[-1][:110]
            break
    rows.append((os.path.basename(d), len(ok), ",".join(und), ",".join(viol) or "-", why))
with open(os.path.join(VERIF, "benign", "README.md"), "w") as f:
    f.write("# Behaviour-preserving refactorings (false-alarm test)\n\nWritten by three sub-agents that saw no part of /verif; each patch compiles, passes `cargo test -p varlink`, and does not change\n"
            "observable behaviour (their reasoning is in `B?-notes.md`).  Every registered check was run against a scratch worktree with the patch applied\n"
            "(`tools/seedrun.py --dir benign --scratch`).  **VIOLATION lines printed: %d.**  UNDECIDED (exit 2) means the extractor's exact-shape rules or a new helper\n"
            "function kept the unit from being assembled -- no verdict, no alarm.\n\n| patch | checks at exit 0 | checks UNDECIDED | checks reporting VIOLATION | first reason |\n|---|---|---|---|---|\n" % alarms)
    for r in rows:
        f.write("| %s | %d | %s | %s | %s |\n" % r)
print("rows", len(rows), "alarms", alarms)
