// bounded audits of ASSUMED std contracts (prelude stand-ins), run with Kani: the real std function next to the assumed relation
#[cfg(kani)]
mod audits {
    use std::io::{BufRead, BufReader};

    // str::rfind('.') returns the LAST index of '.', str::find the FIRST (assumed in frag/handle.vrs)
    #[kani::proof]
    #[kani::unwind(7)]
    fn audit_rfind_find() {
        let b: [u8; 5] = kani::any();
        let n: usize = kani::any();
        kani::assume(n <= 5);
        kani::assume(b.iter().all(|c| *c < 128 && *c != 0));
        let s = std::str::from_utf8(&b[..n]).unwrap();
        match s.rfind('.') {
            Some(i) => { assert!(b[i] == b'.'); assert!(b[i + 1..n].iter().all(|c| *c != b'.')); }
            None => assert!(b[..n].iter().all(|c| *c != b'.')),
        }
        match s.find('.') {
            Some(i) => { assert!(b[i] == b'.'); assert!(b[..i].iter().all(|c| *c != b'.')); }
            None => assert!(b[..n].iter().all(|c| *c != b'.')),
        }
    }

    // (a harness for BufReader::read_until on <= 4 symbolic bytes was tried: CBMC ran out of memory after 9 min, and did not finish in
    //  10 min on <= 3 bytes; that assumed contract stays unaudited)
}
