use vstd::prelude::*;
verus! {

trait FnBox {
    fn call_box(self: Box<Self>);
}

impl<F: FnOnce()> FnBox for F {
    fn call_box(self: Box<F>) {
        (*self)()
    }
}

type Job = Box<dyn FnBox>;

enum Message {
    NewJob(Job),
    Terminate,
}

pub struct Sender<T> { pub ghost sent: Seq<T> , pub x: u8}
#[derive(Debug)]
pub struct SendError;
impl<T> Sender<T> {
    #[verifier::external_body]
    fn send(&self, t: T) -> (r: std::result::Result<(), SendError>)
        ensures r is Ok
    { unimplemented!() }
}
struct Worker { id: u8 }
struct ThreadPool {
    max_workers: usize,
    workers: Vec<Worker>,
    sender: Sender<Message>,
}
#[verifier::external_body]
fn worker_new() -> Worker { unimplemented!() }

impl ThreadPool {
    #[verifier::external_body]
    fn num_busy(&self) -> usize { unimplemented!() }

    pub fn execute<F>(&mut self, f: F)
    where
        F: FnOnce() + Send + 'static,
    {
        let job = Box::new(f);
        self.sender.send(Message::NewJob(job)).unwrap();
        if ((self.num_busy() + 1) >= self.workers.len()) && (self.workers.len() <= self.max_workers)
        {
            self.workers.push(worker_new());
        }
    }
}

} // verus!
fn main() {}
