#![feature(pattern)]
#![allow(unused)]
use vstd::prelude::*;
use std::str::pattern::{Pattern, ReverseSearcher};
use std::borrow::Cow;
verus! {
pub assume_specification<T: Clone> [<[T]>::to_vec] (s: &[T]) -> (r: Vec<T>) ensures r@ == s@;

// ======== assumed std str/String/Cow ========
pub uninterp spec fn pat_char<P>(p: P) -> Option<char>;
pub broadcast axiom fn pat_char_is_char(c: char)
    ensures #[trigger] pat_char::<char>(c) == Some(c);
pub open spec fn is_last_index_of(s: Seq<char>, c: char, n: int) -> bool {
    0 <= n < s.len() && s[n] == c && forall|j: int| n < j < s.len() ==> s[j] != c
}
#[verifier::allow(undeclared_external_trait)]
pub assume_specification<P: Pattern> [str::rfind::<P>] (s: &str, p: P) -> (r: Option<usize>)
    where for<'a> <P as Pattern>::Searcher<'a>: ReverseSearcher<'a>
    ensures
        pat_char(p) matches Some(c) ==> match r {
            Some(n) => is_last_index_of(s@, c, n as int),
            None => forall|j: int| 0 <= j < s@.len() ==> s@[j] != c,
        };
pub uninterp spec fn cow_view<'a, B: ToOwned + ?Sized>(c: &Cow<'a, B>) -> &'a B;
pub assume_specification<'a, 'b, B: ToOwned + ?Sized> [<Cow<'a, B> as std::ops::Deref>::deref] (c: &'b Cow<'a, B>) -> (r: &'b B)
    ensures r == cow_view(c);
pub assume_specification<'a, 'b, T: ToOwned + ?Sized> [<Cow<'a, T> as AsRef<T>>::as_ref] (c: &'b Cow<'a, T>) -> (r: &'b T)
    ensures r == cow_view(c);
pub assume_specification [String::from_utf8_lossy] (v: &[u8]) -> (r: Cow<'_, str>);
#[verifier::external_body]
fn vx_str_prefix<'b>(s: &'b str, n: usize) -> (r: &'b str)
    requires n <= s@.len()
    ensures r@ == s@.subrange(0, n as int)
{ &s[..n] }
// ======== spec layer ========
pub open spec fn no_nul(s: Seq<u8>) -> bool { forall|i: int| 0 <= i < s.len() ==> s[i] != 0u8 }
pub open spec fn is_frame(c: Seq<u8>) -> bool { c.len() > 0 && c.last() == 0u8 && no_nul(c.drop_last()) }

pub open spec fn wire(frames: Seq<Seq<u8>>) -> Seq<u8>
    decreases frames.len()
{
    if frames.len() == 0 { Seq::<u8>::empty() } else { wire(frames.drop_last()) + frames.last() + seq![0u8] }
}
pub open spec fn flat(outs: Seq<Seq<u8>>) -> Seq<u8>
    decreases outs.len()
{
    if outs.len() == 0 { Seq::<u8>::empty() } else { flat(outs.drop_last()) + outs.last() }
}
pub proof fn lemma_wire_push(frames: Seq<Seq<u8>>, f: Seq<u8>)
    ensures wire(frames.push(f)) == wire(frames) + f + seq![0u8]
{
    assert(frames.push(f).drop_last() =~= frames);
}
pub proof fn lemma_flat_push(outs: Seq<Seq<u8>>, o: Seq<u8>)
    ensures flat(outs.push(o)) == flat(outs) + o
{
    assert(outs.push(o).drop_last() =~= outs);
}
pub open spec fn served(svc: &VarlinkService, frames: Seq<Seq<u8>>, outs: Seq<Seq<u8>>) -> bool {
    &&& frames.len() == outs.len()
    &&& forall|i: int| 0 <= i < frames.len() ==> no_nul(#[trigger] frames[i]) && (serde_json::parse_request(frames[i]) matches Some(q) && answers(q, outs[i]))
}
// ======== assumed std::io ========
pub struct IoError;
pub struct JsonError;
pub trait Write {
    spec fn log(&self) -> Seq<u8>;
}
pub trait BufRead {
    spec fn remaining(&self) -> Seq<u8>;
}

pub struct BufReader<'a> {
    pub inner: &'a mut dyn BufRead,
    pub buffered: Vec<u8>,
}
impl<'a> BufRead for BufReader<'a> {
    open spec fn remaining(&self) -> Seq<u8> { self.buffered@ + self.inner.remaining() }
}
impl<'a> BufReader<'a> {
    pub open spec fn stream(&self) -> Seq<u8> { self.buffered@ + self.inner.remaining() }

    #[verifier::external_body]
    pub fn new(inner: &'a mut dyn BufRead) -> (r: Self)
        ensures r.stream() == old(inner).remaining(), r.buffered@.len() == 0,
            final(r.inner).remaining() == final(inner).remaining(),
    { unimplemented!() }

    #[verifier::external_body]
    pub fn read_until(&mut self, delim: u8, buf: &mut Vec<u8>) -> (r: std::result::Result<usize, IoError>)
        requires delim == 0u8,
        ensures
            final(final(self).inner).remaining() == final(old(self).inner).remaining(),
            match r {
                Ok(n) => exists|chunk: Seq<u8>| {
                    &&& #[trigger] (chunk + final(self).stream()) == old(self).stream()
                    &&& final(buf)@ == old(buf)@ + chunk
                    &&& n == chunk.len()
                    &&& (is_frame(chunk) || (no_nul(chunk) && final(self).buffered@.len() == 0 && final(self).inner.remaining().len() == 0))
                },
                Err(_) => true,
            }
    { unimplemented!() }

    #[verifier::external_body]
    pub fn buffer(&self) -> (r: &[u8]) ensures r@ == self.buffered@ { unimplemented!() }
}

// ======== error.rs (ErrorKind verbatim-ish; Error reduced to kind) ========
pub enum ErrorKind { Io, SerdeJsonSer, SerdeJsonDe(String), CallContinuesMismatch, ConnectionClosed }
pub struct Error(pub ErrorKind);
pub type Result<T> = std::result::Result<T, Error>;
impl vstd::std_specs::convert::FromSpecImpl<&IoError> for ErrorKind {
    open spec fn obeys_from_spec() -> bool { false }
    open spec fn from_spec(e: &IoError) -> Self { ErrorKind::Io }
}
impl From<&IoError> for ErrorKind { fn from(e: &IoError) -> Self { ErrorKind::Io } }
macro_rules! map_context { () => { |e| context!(e, ErrorKind::from(&e)) }; }
macro_rules! context {
    ( $k:expr ) => {{ Error($k) }};
    ( $e:path, $k:expr ) => {{ Error($k) }};
}

// ======== serde_json stand-in ========
pub mod serde_json {
    use super::*;
    #[verifier::external_body]
    pub struct Value { _p: () }
    pub uninterp spec fn parse_request(b: Seq<u8>) -> Option<ReqView>;
    #[verifier::external_body]
    pub fn from_slice<'a>(b: &'a [u8]) -> (r: std::result::Result<Request<'a>, JsonError>)
        ensures match r { Ok(q) => parse_request(b@) == Some(q.view()), Err(_) => parse_request(b@) is None }
    { unimplemented!() }
}
use serde_json::Value;

pub struct ReqView { pub more: Option<bool>, pub oneway: Option<bool>, pub upgrade: Option<bool>, pub method: Seq<char> }

pub struct Request<'a> {
    pub more: Option<bool>,
    pub oneway: Option<bool>,
    pub upgrade: Option<bool>,
    pub method: Cow<'a, str>,
    pub parameters: Option<Value>,
}
impl<'a> Request<'a> {
    pub open spec fn view(&self) -> ReqView { ReqView { more: self.more, oneway: self.oneway, upgrade: self.upgrade, method: cow_view(&self.method)@ } }
}

pub struct Call<'a> {
    pub writer: &'a mut dyn Write,
    pub request: Option<&'a Request<'a>>,
    continues: bool,
    upgraded: bool,
}

impl<'a> Call<'a> {
    fn new_upgraded(writer: &'a mut dyn Write) -> Self {
        Call {
            writer,
            request: None,
            continues: false,
            upgraded: true,
        }
    }
    #[verifier::external_body]
    fn reply_interface_not_found(&mut self, arg: Option<String>) -> (r: Result<()>)
        ensures
            final(final(self).writer).log() == final(old(self).writer).log(),
            final(self).request == old(self).request,
            r is Ok ==> exists|d: Seq<u8>| #[trigger] answers(old(self).request.unwrap().view(), d) && final(self).writer.log() == old(self).writer.log() + d,
    { unimplemented!() }
    fn new(writer: &'a mut dyn Write, request: &'a Request<'a>) -> (c: Self)
        ensures c.writer.log() == old(writer).log(), final(c.writer).log() == final(writer).log(),
            c.request == Some(request), !c.continues, !c.upgraded
    {
        Call {
            writer,
            request: Some(request),
            continues: false,
            upgraded: false,
        }
    }
}


pub struct VarlinkService { pub x: u64 }

pub uninterp spec fn answers(req: ReqView, delta: Seq<u8>) -> bool;

impl VarlinkService {
    #[verifier::external_body]
    fn call(&self, iface: &str, call: &mut Call) -> (r: Result<()>)
        ensures
            final(final(call).writer).log() == final(old(call).writer).log(),
            final(call).request == old(call).request,
            r is Ok ==> exists|d: Seq<u8>| #[trigger] answers(old(call).request.unwrap().view(), d) && final(call).writer.log() == old(call).writer.log() + d,
    { unimplemented!() }

    #[verifier::external_body]
    fn call_upgraded(&self, iface: &str, call: &mut Call, bufreader: &mut BufReader) -> (r: Result<Vec<u8>>)
        ensures
            final(final(call).writer).log() == final(old(call).writer).log(),
    { unimplemented!() }

    #[verifier::loop_isolation(false)]
    #[verifier::allow_complex_invariants]
    fn handle(
        &self,
        bufreader: &mut dyn BufRead,
        writer: &mut dyn Write,
        upgraded_last_interface: Option<String>,
    ) -> (r: Result<(Vec<u8>, Option<String>)>)
        requires upgraded_last_interface is None,
        ensures
            match r {
                Ok((tail, up)) => exists|frames: Seq<Seq<u8>>, outs: Seq<Seq<u8>>| {
                    &&& #[trigger] served(self, frames, outs)
                    &&& old(bufreader).remaining() =~= wire(frames) + tail@ + final(bufreader).remaining()
                    &&& final(writer).log() =~= old(writer).log() + flat(outs)
                    &&& (up is None ==> no_nul(tail@) && final(bufreader).remaining().len() == 0)
                },
                Err(_) => true,
            }
    {
        broadcast use pat_char_is_char;
        let ghost in0 = bufreader.remaining();
        let ghost w0 = writer.log();
        let ghost mut frames: Seq<Seq<u8>> = Seq::empty();
        let ghost mut outs: Seq<Seq<u8>> = Seq::empty();
        let ghost fin_in = final(bufreader).remaining();
        let mut bufreader = BufReader::new(bufreader);
        let mut upgraded_iface = upgraded_last_interface;
        loop
            invariant_except_break
                upgraded_iface is None,
            invariant
                served(self, frames, outs),
                in0 == wire(frames) + bufreader.stream(),
                writer.log() == w0 + flat(outs),
                final(bufreader.inner).remaining() == fin_in,
            ensures
                upgraded_iface is Some,
            decreases bufreader.stream().len()
        {
            if let Some(iface) = upgraded_iface {
                let mut call = Call::new_upgraded(writer);
                let unread = self.call_upgraded(&iface, &mut call, &mut bufreader)?;
                return Ok((unread, Some(iface)));
            }

            broadcast use pat_char_is_char;
            let mut buf = Vec::new();
            let len = bufreader
                .read_until(b'\0', &mut buf)
                .map_err(map_context!())?;

            if len == 0 {
                // EOF
                proof { assert(in0 =~= wire(frames) + buf@ + bufreader.inner.remaining()); }
                return Ok((buf, None));
            }

            if buf.get(len - 1).unwrap_or(&b'x') != &b'\0' {
                // Incomplete message
                proof { assert(in0 =~= wire(frames) + buf@ + bufreader.inner.remaining()); }
                return Ok((buf, None));
            }

            // pop the last zero byte
            buf.pop();

            let req: Request = serde_json::from_slice(&buf).map_err(|e| {
                context!(
                    e,
                    ErrorKind::SerdeJsonDe(String::from_utf8_lossy(&buf).to_string())
                )
            })?;

            let n: usize = match req.method.rfind('.') {
                None => {
                    let method: String = String::from(req.method.as_ref());
                    let mut call = Call::new(writer, &req);
                    call.reply_interface_not_found(Some(method))?;
                    proof {
                        let d = choose|d: Seq<u8>| #[trigger] answers(req.view(), d) && call.writer.log() == w0 + flat(outs) + d;
                        lemma_wire_push(frames, buf@);
                        lemma_flat_push(outs, d);
                        frames = frames.push(buf@);
                        outs = outs.push(d);
                    }
                    continue;
                }
                Some(x) => x,
            };

            let iface = String::from(vx_str_prefix(&req.method, n));

            let mut call = Call::new(writer, &req);
            self.call(&iface, &mut call)?;
            proof {
                let d = choose|d: Seq<u8>| #[trigger] answers(req.view(), d) && call.writer.log() == w0 + flat(outs) + d;
                lemma_wire_push(frames, buf@);
                lemma_flat_push(outs, d);
                frames = frames.push(buf@);
                outs = outs.push(d);
            }

            if call.upgraded {
                upgraded_iface = Some(iface);
                break;
            }
        }

        proof {
            assert(upgraded_iface is Some);
            assert(served(self, frames, outs));
            assert(in0 == wire(frames) + bufreader.stream());
            assert(writer.log() == w0 + flat(outs));
            assert(final(bufreader.inner).remaining() == fin_in);
            assert(in0 =~= wire(frames) + bufreader.buffered@ + bufreader.inner.remaining());
        }
        Ok((bufreader.buffer().to_vec(), upgraded_iface))
    }
}
} // verus!
fn main() {}
