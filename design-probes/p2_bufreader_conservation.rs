use vstd::prelude::*;
verus! {
pub assume_specification<T: Clone> [<[T]>::to_vec] (s: &[T]) -> (r: Vec<T>) ensures r@ == s@;

pub trait BufRead {
    spec fn remaining(&self) -> Seq<u8>;
    fn take_some(&mut self, n: usize) -> (r: Vec<u8>)
        ensures r@ + final(self).remaining() == old(self).remaining();
}

pub struct BufReader<'a> {
    pub inner: &'a mut dyn BufRead,
    pub buf: Vec<u8>,
}

impl<'a> BufReader<'a> {
    pub closed spec fn stream(&self) -> Seq<u8> { self.buf@ + self.inner.remaining() }
    fn new(inner: &'a mut dyn BufRead) -> (r: Self)
        ensures r.stream() == old(inner).remaining(), r.buf@ == Seq::<u8>::empty(), final(r.inner).remaining() == final(inner).remaining()
    { BufReader { inner, buf: Vec::new() } }

    fn pull(&mut self)
        ensures final(self).stream() == old(self).stream(),
            final(final(self).inner).remaining() == final(old(self).inner).remaining(),
    {
        let mut v = self.inner.take_some(10);
        self.buf.append(&mut v);
        assert(self.buf@ + self.inner.remaining() =~= old(self).buf@ + old(self).inner.remaining());
    }
    fn buffer(&self) -> (r: &[u8]) ensures r@ == self.buf@ { self.buf.as_slice() }
}

fn handle(bufreader: &mut dyn BufRead) -> (tail: Vec<u8>)
    ensures tail@ + final(bufreader).remaining() == old(bufreader).remaining()
{
    let mut br = BufReader::new(bufreader);
    br.pull();
    br.buffer().to_vec()
}

fn handle_bad(bufreader: &mut dyn BufRead) -> (tail: Vec<u8>)
    ensures tail@ + final(bufreader).remaining() == old(bufreader).remaining()
{
    let mut br = BufReader::new(bufreader);
    br.pull();
    Vec::new()
}

} // verus!
fn main() {}
