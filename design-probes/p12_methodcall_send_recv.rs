#![allow(unused)]
use vstd::prelude::*;
use std::borrow::Cow;
use std::marker::PhantomData;
verus! {
// ---- prelude stand-ins
pub struct IoError;
pub trait Read { spec fn remaining(&self) -> Seq<u8>; }
pub trait Write {
    spec fn log(&self) -> Seq<u8>;
    fn write_all(&mut self, b: &[u8]) -> (r: std::result::Result<(), IoError>)
        ensures r is Ok ==> final(self).log() == old(self).log() + b@, r is Err ==> final(self).log() == old(self).log();
    fn flush(&mut self) -> (r: std::result::Result<(), IoError>) ensures final(self).log() == old(self).log();
}
#[verifier::external_body]
#[verifier::reject_recursive_types(R)]
pub struct BufReader<R> { _r: PhantomData<R> }
impl<R> BufReader<R> {
    pub uninterp spec fn stream(&self) -> Seq<u8>;
    #[verifier::external_body]
    pub fn read_until(&mut self, delim: u8, buf: &mut Vec<u8>) -> (r: std::result::Result<usize, IoError>)
        ensures match r { Ok(n) => exists|chunk: Seq<u8>| #[trigger] (chunk + final(self).stream()) == old(self).stream() && final(buf)@ == old(buf)@ + chunk && n == chunk.len(), Err(_) => true }
    { unimplemented!() }
}
pub struct RwLock<T> { pub v: T }
pub struct Guard<'a, T> { pub r: &'a mut T }
#[derive(Debug)] pub struct Poison;
impl<T> RwLock<T> {
    #[verifier::external_body]
    pub fn write(&self) -> (r: std::result::Result<Guard<'_, T>, Poison>) ensures r is Ok { unimplemented!() }
}
impl<'a, T> std::ops::Deref for Guard<'a, T> { type Target = T; fn deref(&self) -> &T { &*self.r } }
impl<'a, T> std::ops::DerefMut for Guard<'a, T> { fn deref_mut(&mut self) -> &mut T { &mut *self.r } }
pub struct Arc<T> { pub v: Box<T> }
impl<T> std::ops::Deref for Arc<T> { type Target = T; fn deref(&self) -> &T { &*self.v } }

pub mod serde_json {
    use vstd::prelude::verus;
    #[verifier::external_body] pub struct Opaque { _p: () }
    pub struct Map { pub o: Opaque }
    impl Map { #[verifier::external_body] pub fn new() -> Map { unimplemented!() } }
    pub enum Value { Null, Object(Map), Other(Opaque) }
    pub struct Error;
    pub trait Serialize {}
    pub trait DeserializeOwned: Sized {}
    #[verifier::external_body] pub fn to_value<T: Serialize>(t: T) -> std::result::Result<Value, Error> { unimplemented!() }
    #[verifier::external_body] pub fn to_string<T>(t: &T) -> std::result::Result<String, Error> { unimplemented!() }
    #[verifier::external_body] pub fn from_slice<T>(b: &[u8]) -> std::result::Result<T, Error> { unimplemented!() }
    #[verifier::external_body] pub fn from_value<T: DeserializeOwned>(v: Value) -> std::result::Result<T, Error> { unimplemented!() }
    #[verifier::external_body] pub fn empty_object() -> Value { unimplemented!() }
}
use serde_json::{Value, Serialize, DeserializeOwned};
pub assume_specification [std::string::String::as_bytes] (s: &std::string::String) -> (r: &[u8]);
#[verifier::external_body]
fn vx_append_nul(s: String) -> (r: String) { s + "\0" }

pub enum ErrorKind { Io, SerdeJsonSer, MethodCalledAlready, ConnectionBusy, IteratorOldReply, ConnectionClosed, Reply(Reply) }
pub struct Error(pub ErrorKind);
impl From<&IoError> for ErrorKind { #[verifier::external_body] fn from(e: &IoError) -> Self { ErrorKind::Io } }
impl From<&serde_json::Error> for ErrorKind { #[verifier::external_body] fn from(e: &serde_json::Error) -> Self { ErrorKind::SerdeJsonSer } }
impl From<Reply> for ErrorKind { #[verifier::external_body] fn from(e: Reply) -> Self { ErrorKind::Reply(e) } }
macro_rules! map_context { () => { |e| context!(e, ErrorKind::from(&e)) }; }
macro_rules! context {
    ( $k:expr ) => {{ Error($k) }};
    ( $e:path, $k:expr ) => {{ Error($k) }};
}

pub struct Request<'a> {
    pub more: Option<bool>,
    pub oneway: Option<bool>,
    pub upgrade: Option<bool>,
    pub method: Cow<'a, str>,
    pub parameters: Option<Value>,
}
impl<'a> Request<'a> {
    pub fn create<S: Into<Cow<'a, str>>>(method: S, parameters: Option<Value>) -> Self {
        Request {
            more: None,
            oneway: None,
            upgrade: None,
            method: method.into(),
            parameters,
        }
    }
}
pub struct Reply {
    pub continues: Option<bool>,
    pub error: Option<Cow<'static, str>>,
    pub parameters: Option<Value>,
}

pub struct Connection {
    pub reader: Option<BufReader<Box<dyn Read>>>,
    pub writer: Option<Box<dyn Write>>,
}

pub struct MethodCall<MRequest, MReply, MError>
where
    MRequest: Serialize,
    MReply: DeserializeOwned,
    MError: From<Error>,
{
    pub connection: Arc<RwLock<Connection>>,
    pub request: Option<MRequest>,
    pub method: Option<Cow<'static, str>>,
    pub reader: Option<BufReader<Box<dyn Read>>>,
    pub writer: Option<Box<dyn Write>>,
    pub continues: bool,
    pub phantom_reply: PhantomData<MReply>,
    pub phantom_error: PhantomData<MError>,
}

impl<MRequestParameters, MReply, MError> MethodCall<MRequestParameters, MReply, MError>
where
    MRequestParameters: Serialize,
    MReply: DeserializeOwned,
    MError: From<Error>,
{
    fn send(&mut self, oneway: bool, more: bool, upgrade: bool) -> (r: std::result::Result<(), MError>)
    {
        {
            let mut conn = self.connection.write().unwrap();
            let mut req = match (self.method.take(), self.request.take()) {
                (Some(method), Some(request)) => Request::create(
                    method,
                    Some(serde_json::to_value(request).map_err(map_context!())?),
                ),
                _ => {
                    return Err(MError::from(context!(ErrorKind::MethodCalledAlready)));
                }
            };

            if conn.reader.is_none() || conn.writer.is_none() {
                return Err(context!(ErrorKind::ConnectionBusy).into());
            }

            if oneway {
                req.oneway = Some(true);
            } else {
                self.reader = conn.reader.take();
            }

            if more {
                req.more = Some(true);
            }

            if upgrade {
                req.upgrade = Some(true);
            }

            let mut w = conn.writer.take().unwrap();

            let b = vx_append_nul(serde_json::to_string(&req).map_err(map_context!())?);

            w.write_all(b.as_bytes()).map_err(map_context!())?;
            w.flush().map_err(map_context!())?;
            if oneway {
                conn.writer = Some(w);
            } else {
                self.writer = Some(w);
            }
        }
        Ok(())
    }

    pub fn recv(&mut self) -> std::result::Result<MReply, MError> {
        if self.reader.is_none() || self.writer.is_none() {
            return Err(context!(ErrorKind::IteratorOldReply).into());
        }

        let mut buf = Vec::new();

        let mut reader = self.reader.take().unwrap();
        reader.read_until(0, &mut buf).map_err(map_context!())?;
        self.reader = Some(reader);
        if buf.is_empty() {
            return Err(context!(ErrorKind::ConnectionClosed).into());
        }
        buf.pop();
        let reply: Reply = serde_json::from_slice(&buf).map_err(map_context!())?;
        match reply.continues {
            Some(true) => self.continues = true,
            _ => {
                self.continues = false;
                let mut conn = self.connection.write().unwrap();
                conn.reader = self.reader.take();
                conn.writer = self.writer.take();
            }
        }
        if reply.error.is_some() {
            return Err(context!(ErrorKind::from(reply)).into());
        }

        match reply {
            Reply {
                parameters: Some(p),
                ..
            } => {
                let mreply: MReply = serde_json::from_value(p).map_err(map_context!())?;
                Ok(mreply)
            }
            Reply {
                parameters: None, ..
            } => {
                let mreply: MReply =
                    serde_json::from_value(serde_json::Value::Object(serde_json::Map::new()))
                        .map_err(map_context!())?;
                Ok(mreply)
            }
        }
    }
}
}
fn main() {}
