#![feature(pattern)]
use vstd::prelude::*;
use std::borrow::Cow;
use std::str::pattern::{Pattern, ReverseSearcher};
verus! {

pub uninterp spec fn pat_char<P>(p: P) -> Option<char>;
pub broadcast axiom fn pat_char_is_char(c: char)
    ensures #[trigger] pat_char::<char>(c) == Some(c);

pub open spec fn is_last_index_of(s: Seq<char>, c: char, n: int) -> bool {
    0 <= n < s.len() && s[n] == c && forall|j: int| n < j < s.len() ==> s[j] != c
}

pub assume_specification<P: Pattern> [str::rfind::<P>] (s: &str, p: P) -> (r: Option<usize>)
    where for<'a> <P as Pattern>::Searcher<'a>: ReverseSearcher<'a>
    ensures
        pat_char(p) matches Some(c) ==> match r {
            Some(n) => is_last_index_of(s@, c, n as int),   // ASCII-only view: byte index == char index assumed
            None => forall|j: int| 0 <= j < s@.len() ==> s@[j] != c,
        };

pub assume_specification<'a, 'b, T: ToOwned + ?Sized> [<Cow<'a, T> as AsRef<T>>::as_ref] (c: &'b Cow<'a, T>) -> (r: &'b T);

fn f(m: &Cow<'_, str>) -> (r: Option<usize>)
    ensures r matches Some(n) ==> n < m@.len()
{
    broadcast use pat_char_is_char;
    m.rfind('.')
}
fn h(m: &Cow<'_, str>) -> String {
    String::from(m.as_ref())
}

} // verus!
fn main() {}
verus!{
fn f2(m: &str) -> (r: Option<usize>)
    ensures r matches Some(n) ==> n < m@.len()
{
    broadcast use pat_char_is_char;
    m.rfind('.')
}
}
