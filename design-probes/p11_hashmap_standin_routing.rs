use vstd::prelude::*;
use std::borrow::Cow;
verus! {
pub trait Interface { spec fn name(&self) -> Seq<char>; fn get_name(&self) -> (r: &'static str) ensures r@ == self.name(); }

#[verifier::external_body]
#[verifier::reject_recursive_types(K)]
#[verifier::reject_recursive_types(V)]
pub struct HashMap<K, V> { _k: std::marker::PhantomData<(K, V)> }

impl<V> HashMap<Cow<'static, str>, V> {
    pub uninterp spec fn view(&self) -> Map<Seq<char>, V>;
    #[verifier::external_body]
    pub fn contains_key(&self, k: &str) -> (b: bool) ensures b == self@.dom().contains(k@) { unimplemented!() }
}
impl<V> vstd::std_specs::core::IndexSpecImpl<&str> for HashMap<Cow<'static, str>, V> {
    open spec fn index_req(&self, index: &&str) -> bool { self@.dom().contains((*index)@) }
}
impl<V> std::ops::Index<&str> for HashMap<Cow<'static, str>, V> {
    type Output = V;
    #[verifier::external_body]
    fn index(&self, k: &str) -> (r: &V)
        ensures self@.dom().contains(k@) ==> *r == self@[k@]
    { unimplemented!() }
}

pub struct Svc { pub ifaces: HashMap<Cow<'static, str>, Box<dyn Interface>> }

impl Svc {
    fn route(&self, iface: &str) -> (r: Option<&'static str>)
        requires forall|k: Seq<char>| self.ifaces@.dom().contains(k) ==> #[trigger] self.ifaces@[k].name() == k
        ensures r matches Some(n) ==> n@ == iface@
    {
        match iface {
            "org.varlink.service" => None,
            key => {
                if self.ifaces.contains_key(key) {
                    Some(self.ifaces[key].get_name())
                } else {
                    None
                }
            }
        }
    }
}
}
fn main() {}
