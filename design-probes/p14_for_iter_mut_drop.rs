use vstd::prelude::*;
verus! {
pub struct JoinHandle { pub id: u8 }
impl JoinHandle { #[verifier::external_body] fn join(self) -> (r: std::result::Result<(), ()>) ensures r is Ok { unimplemented!() } }
pub struct Worker { pub thread: Option<JoinHandle> }
pub struct Pool { pub workers: Vec<Worker> }
impl Pool {
    fn drop(&mut self) {
        for _ in &mut self.workers {
        }

        for worker in &mut self.workers {
            if let Some(thread) = worker.thread.take() {
                thread.join().unwrap();
            }
        }
    }
}
}
fn main() {}
