use vstd::prelude::*;
verus! {
pub enum ErrorKind { Timeout, Other }
pub struct Error(pub ErrorKind);
impl Error { pub fn kind(&self) -> (r: &ErrorKind) ensures *r == self.0 { &self.0 } }
pub struct L;
impl L {
    #[verifier::external_body]
    fn accept(&self, t: u64) -> std::result::Result<u32, Error> { unimplemented!() }
}
#[verifier::external_body]
fn busy() -> usize { unimplemented!() }

#[verifier::exec_allows_no_decreases_clause]
fn listen(listener: &L, idle_timeout: u64, has_stop: bool, stopflag: bool) -> (r: std::result::Result<(), Error>)
    requires idle_timeout < 1000000
{
    loop {
        let mut to_wait = idle_timeout * 1000;
        let wait_time = if has_stop { 100 } else { to_wait };
        let ghost mut idle: nat = 0;
        let mut stream: u32;
        loop 
            invariant idle + to_wait == idle_timeout * 1000, wait_time == (if has_stop { 100 } else { idle_timeout * 1000 }),
        {
            match listener.accept(wait_time) {
                Err(e) => match e.kind() {
                    ErrorKind::Timeout => {
                        if has_stop {
                            if stopflag {
                                return Ok(());
                            }
                            if idle_timeout == 0 {
                                continue;
                            }
                        }

                        if to_wait <= wait_time {
                            if busy() == 0 {
                                proof { assert(idle + wait_time >= idle_timeout * 1000); }
                                return Err(e);
                            }
                            to_wait = idle_timeout * 1000;
                            proof { idle = 0; }
                        } else {
                            to_wait -= wait_time;
                            proof { idle = idle + wait_time as nat; }
                        }

                        continue;
                    }
                    _ => {
                        return Err(e);
                    }
                },
                r => { stream = r?; break; }
            }
        }
    }
}
}
fn main() {}
