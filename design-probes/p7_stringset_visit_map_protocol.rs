use vstd::prelude::*;
use std::collections::HashSet;
verus! {

pub mod de {
    use super::*;
    pub trait MapAccess<'de> : Sized {
        type Error;
        spec fn pending_value(&self) -> bool;       // a key was handed out and its value not yet consumed
        spec fn keys_left(&self) -> Seq<Seq<char>>;  // keys still to be delivered
        fn next_key(&mut self) -> (r: std::result::Result<Option<String>, Self::Error>)
            requires !old(self).pending_value(),
            ensures match r {
                Ok(Some(k)) => old(self).keys_left().len() > 0 && k@ == old(self).keys_left()[0]
                    && final(self).keys_left() == old(self).keys_left().drop_first() && final(self).pending_value(),
                Ok(None) => old(self).keys_left().len() == 0 && !final(self).pending_value() && final(self).keys_left() == old(self).keys_left(),
                Err(_) => true,
            };
        fn next_value_ignored(&mut self) -> (r: std::result::Result<(), Self::Error>)
            requires old(self).pending_value(),
            ensures r is Ok ==> !final(self).pending_value() && final(self).keys_left() == old(self).keys_left();
    }
}

pub struct StringHashSet {
    inner: HashSet<String>,
}
impl StringHashSet {
    #[verifier::external_body]
    fn new() -> (r: StringHashSet) ensures r.inner@ == Set::<String>::empty() { unimplemented!() }
    #[verifier::external_body]
    fn insert(&mut self, k: String) -> (b: bool) ensures final(self).inner@ == old(self).inner@.insert(k) { unimplemented!() }
}

fn visit_map<'de, V>(mut visitor: V) -> (r: std::result::Result<StringHashSet, V::Error>)
where
    V: de::MapAccess<'de>,
    requires !visitor.pending_value(),
{
    let mut values = StringHashSet::new();

    while let Some(key) = visitor.next_key()? 
        invariant !visitor.pending_value(),
        decreases visitor.keys_left().len()
    {
        values.insert(key);
    }

    Ok(values)
}

} // verus!
fn main() {}
