use vstd::prelude::*;
verus! {

pub struct Connection {
    pub reader: Option<u64>,
    pub writer: Option<u64>,
}

pub struct RwLock<T> { pub v: T }
pub struct Guard<'a, T> { pub r: &'a mut T }
#[derive(Debug)]
pub struct Poison;

impl<T> RwLock<T> {
    #[verifier::external_body]
    fn write(&self) -> (r: std::result::Result<Guard<'_, T>, Poison>)
    { unimplemented!() }
}
impl<'a, T> std::ops::Deref for Guard<'a, T> {
    type Target = T;
    fn deref(&self) -> &T { &*self.r }
}
impl<'a, T> std::ops::DerefMut for Guard<'a, T> {
    fn deref_mut(&mut self) -> &mut T { &mut *self.r }
}

fn f(c: &RwLock<Connection>) -> bool {
    let mut conn = c.write().unwrap();
    if conn.reader.is_none() { return false; }
    let r = conn.reader.take();
    conn.writer = None;
    true
}

} // verus!
fn main() {}
