use vstd::prelude::*;
use std::collections::HashSet;
verus! {
pub mod serde_json {
    use vstd::prelude::verus;
    #[verifier::external_body] pub struct Opaque { _p: () }
    pub struct Map { pub o: Opaque }
    impl Map { #[verifier::external_body] pub fn new() -> Map { unimplemented!() } }
    pub enum Value { Null, Object(Map), Other(Opaque) }
}
pub trait SerializeMap: Sized {
    type Ok; type Error;
    spec fn entries(&self) -> Seq<Seq<char>>;
    fn serialize_entry(&mut self, k: &String, v: &serde_json::Value) -> (r: std::result::Result<(), Self::Error>)
        requires v is Object,
        ensures r is Ok ==> final(self).entries() == old(self).entries().push(k@);
    fn end(self) -> std::result::Result<Self::Ok, Self::Error>;
}
pub trait Serializer: Sized {
    type Ok; type Error;
    type SerializeMap: SerializeMap<Ok = Self::Ok, Error = Self::Error>;
    fn serialize_map(self, len: Option<usize>) -> (r: std::result::Result<Self::SerializeMap, Self::Error>)
        ensures r matches Ok(m) ==> m.entries().len() == 0;
}
pub struct StringHashSet { pub inner: HashSet<String> }

impl StringHashSet {
    fn serialize<S>(&self, serializer: S) -> ::std::result::Result<S::Ok, S::Error>
    where
        S: Serializer,
    {
        let null_obj: serde_json::Value = serde_json::Value::Object(serde_json::Map::new());

        let mut map = serializer.serialize_map(Some(self.inner.len()))?;
        for k in &self.inner {
            map.serialize_entry(k, &null_obj)?;
        }
        map.end()
    }
}
}
fn main() {}
