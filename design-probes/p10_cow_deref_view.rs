use vstd::prelude::*;
use std::borrow::Cow;
verus! {
pub uninterp spec fn cow_view<'a, B: ToOwned + ?Sized>(c: &Cow<'a, B>) -> &'a B;
pub assume_specification<'a, 'b, B: ToOwned + ?Sized> [<Cow<'a, B> as std::ops::Deref>::deref] (c: &'b Cow<'a, B>) -> (r: &'b B)
    ensures r == cow_view(c);

fn g(m: &Cow<'_, str>) -> (r: usize)
    ensures r == cow_view(m)@.len()
{
    m.unicode_len()
}
fn g2(m: &Cow<'_, str>)
{
    assert(m@.len() >= 0);
}
} // verus!
fn main() {}
