use vstd::prelude::*;
use std::borrow::Cow;
verus! {
// (signature mismatch in this Verus build; see README) pub assume_specification<'a, 'b> [<Cow<'b, str> as PartialEq<&'a str>>::eq] (x: &Cow<'b, str>, y: &&'a str) -> (r: bool)
//     ensures r == (x@ == (*y)@);
pub mod serde_json {
    use super::*;
    #[verifier::external_body]
    pub struct Value { _p: () }
    pub struct Error;
    pub trait DeserializeOwned : Sized { spec fn decode(v: Value) -> Option<Self>; }
    #[verifier::external_body]
    pub fn from_value<T: DeserializeOwned>(v: Value) -> (r: std::result::Result<T, Error>)
        ensures match r { Ok(t) => T::decode(v) == Some(t), Err(_) => T::decode(v) is None }
    { unimplemented!() }
}
use serde_json::Value;

pub struct ErrorInterfaceNotFound {
    pub interface: Option<String>,
}
impl serde_json::DeserializeOwned for ErrorInterfaceNotFound { uninterp spec fn decode(v: Value) -> Option<Self>; }

pub struct Reply {
    pub continues: Option<bool>,
    pub error: Option<Cow<'static, str>>,
    pub parameters: Option<Value>,
}
pub enum ErrorKind {
    InterfaceNotFound(String),
    VarlinkErrorReply(Reply),
}

impl vstd::std_specs::convert::FromSpecImpl<Reply> for ErrorKind {
    open spec fn obeys_from_spec() -> bool { false }
    uninterp spec fn from_spec(e: Reply) -> Self;
}
impl From<Reply> for ErrorKind {
    fn from(e: Reply) -> (r: Self)
        ensures
            (e.error matches Some(t) && t@ == "org.varlink.service.InterfaceNotFound"@) ==> r is InterfaceNotFound,
            e.error is None ==> r is VarlinkErrorReply,
    {
        match e {
            Reply {
                error: Some(ref t), ..
            } if t == "org.varlink.service.InterfaceNotFound" => match e {
                Reply {
                    parameters: Some(p),
                    ..
                } => match serde_json::from_value::<ErrorInterfaceNotFound>(p) {
                    Ok(v) => ErrorKind::InterfaceNotFound(v.interface.unwrap_or_default()),
                    Err(_) => ErrorKind::InterfaceNotFound(String::new()),
                },
                _ => ErrorKind::InterfaceNotFound(String::new()),
            },
            _ => ErrorKind::VarlinkErrorReply(e),
        }
    }
}
} // verus!
fn main() {}
