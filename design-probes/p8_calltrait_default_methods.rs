use vstd::prelude::*;
verus! {
pub struct Reply { pub continues: Option<bool>, pub error: Option<u8>, pub p: u64 }
pub trait Write { spec fn log(&self) -> Seq<u8>; }
pub uninterp spec fn json_of(r: Reply) -> Seq<u8>;
pub struct Error;
pub type Result<T> = std::result::Result<T, Error>;

pub trait CallTrait {
    spec fn out(&self) -> Seq<u8>;
    spec fn cont(&self) -> bool;
    spec fn more(&self) -> bool;
    spec fn oneway(&self) -> bool;

    fn reply_struct(&mut self, reply: Reply) -> (r: Result<()>)
        ensures
            old(self).cont() && !old(self).more() ==> r is Err && final(self).out() == old(self).out(),
            r is Ok && !old(self).oneway() ==> final(self).out() == old(self).out() + json_of(Reply { continues: if old(self).cont() { Some(true) } else { reply.continues }, ..reply }) + seq![0u8],
            final(self).cont() == old(self).cont(), final(self).more() == old(self).more(), final(self).oneway() == old(self).oneway();

    fn reply_method_not_found(&mut self, method_name: u64) -> (r: Result<()>)
        ensures r is Ok && !old(self).oneway() && !old(self).cont() ==> final(self).out() == old(self).out() + json_of(Reply{continues: None, error: Some(1u8), p: method_name}) + seq![0u8],
    {
        self.reply_struct(Reply { continues: None, error: Some(1u8), p: method_name })
    }
}

pub struct Call<'a> {
    pub writer: &'a mut dyn Write,
    pub continues: bool,
    pub wants_more: bool,
}
impl CallTrait for Call<'_> {
    open spec fn out(&self) -> Seq<u8> { self.writer.log() }
    open spec fn cont(&self) -> bool { self.continues }
    open spec fn more(&self) -> bool { self.wants_more }
    open spec fn oneway(&self) -> bool { false }
    #[verifier::external_body]
    fn reply_struct(&mut self, reply: Reply) -> (r: Result<()>) { unimplemented!() }
}
}
fn main() {}
