#!/bin/sh
# offline setup: nothing to fetch; warm up Verus once and build the replay crate if present
set -e
cd "$(dirname "$0")"
mkdir -p build/units evidence replays
command -v verus >/dev/null
python3 -c "import json,sys; json.load(open('MANIFEST.json'))"
if [ -f replay/Cargo.toml ]; then
  ( cd replay && CARGO_NET_OFFLINE=true CARGO_TARGET_DIR=/verif/build/replay-target cargo build --release --offline -q ) || echo "replay crate build failed (replay documents, never decides)"
fi
echo setup ok
