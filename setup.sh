#!/bin/sh
# offline setup: nothing to fetch; warm up Verus once and build the replay crate if present
set -e
cd "$(dirname "$0")"
mkdir -p build/units evidence replays
command -v verus >/dev/null
python3 -c "import json,sys; json.load(open('MANIFEST.json'))"
if [ -f replay/Cargo.toml ]; then
  ( cd replay && CARGO_NET_OFFLINE=true CARGO_TARGET_DIR=/verif/build/replay-target cargo build --release --offline -q ) || echo "replay crate build failed (replay documents, never decides)"
fi
# warm-up (optional): the repository's own generator, whose output the units `cert` and `gencert` extract from (rule G1); the checks rebuild it from /repo anyway
( cd /repo && CARGO_NET_OFFLINE=true CARGO_TARGET_DIR=/verif/build/gen-target cargo build --release --offline -q -p varlink_generator --bin varlink-rust-generator ) >/dev/null 2>&1 || echo "generator warm-up failed (the checks that need it will report UNDECIDED)"
echo setup ok
