//! vx-replay <obligation-glob>: witness searches on the REAL varlink crate (/repo/varlink).
//! Documents a failed obligation with a concrete input; never decides a property.
//! Output: one JSON object per search on stdout: {"obligation":..,"found":bool,"input":..,"observed":..,"expected":..,"explored":n}
use serde_json::{json, Value};
use std::io::{BufRead, BufReader, Read, Write};
use std::sync::atomic::{AtomicUsize, Ordering};
use std::sync::{Arc, Mutex, RwLock};
use std::time::Duration;
use varlink::{Call, CallTrait, ConnectionHandler, Interface, VarlinkService};

// ---------------------------------------------------------------- a scripted interface "org.example.t"
struct Scripted;
impl Interface for Scripted {
    fn get_description(&self) -> &'static str { "interface org.example.t\nmethod Ok() -> ()\nmethod Stream() -> ()\nmethod BadCont() -> ()\nmethod Fail() -> ()\nmethod Up() -> ()\n" }
    fn get_name(&self) -> &'static str { "org.example.t" }
    fn call_upgraded(&self, call: &mut Call, bufreader: &mut dyn BufRead) -> varlink::Result<Vec<u8>> {
        // record every byte handed to the upgraded handler
        let mut v = Vec::new();
        let _ = bufreader.read_to_end(&mut v);
        call.writer.write_all(b"UP:").unwrap();
        call.writer.write_all(&v).unwrap();
        Err(varlink::context!(varlink::ErrorKind::ConnectionClosed))
    }
    fn call(&self, call: &mut Call) -> varlink::Result<()> {
        let m = call.get_request().unwrap().method.to_string();
        match m.as_ref() {
            "org.example.t.Ok" => call.reply_struct(varlink::Reply::parameters(Some(json!({"ok": true})))),
            "org.example.t.Stream" => {
                if call.wants_more() {
                    call.set_continues(true);
                    call.reply_struct(varlink::Reply::parameters(Some(json!({"n": 1}))))?;
                    call.reply_struct(varlink::Reply::parameters(Some(json!({"n": 2}))))?;
                    call.set_continues(false);
                }
                call.reply_struct(varlink::Reply::parameters(Some(json!({"n": 3}))))
            }
            "org.example.t.BadCont" => {
                call.set_continues(true);
                call.reply_struct(varlink::Reply::parameters(Some(json!({"n": 1}))))
            }
            "org.example.t.Fail" => call.reply_struct(varlink::Reply::error("org.example.t.Failed", None)),
            "org.example.t.Up" => { call.to_upgraded(); call.reply_struct(varlink::Reply::parameters(None)) }
            _ => call.reply_method_not_found(m),
        }
    }
}
fn service() -> VarlinkService {
    VarlinkService::new("v", "p", "1", "u", vec![Box::new(Scripted)])
}

// a reader that hands out at most `seg` bytes per read (segmentation), also usable as BufRead via BufReader
struct Seg { data: Vec<u8>, pos: usize, seg: usize }
impl Read for Seg {
    fn read(&mut self, buf: &mut [u8]) -> std::io::Result<usize> {
        let n = std::cmp::min(std::cmp::min(self.seg, buf.len()), self.data.len() - self.pos);
        buf[..n].copy_from_slice(&self.data[self.pos..self.pos + n]);
        self.pos += n;
        Ok(n)
    }
}

#[derive(Clone, Debug)]
struct Req { text: &'static str, oneway: bool, more: bool, expect: Exp }
#[derive(Clone, Debug, PartialEq)]
enum Exp { Params, Error(&'static str), Stream3, Nothing, CloseAfterNothing, ErrorWith(&'static str, &'static str, &'static str), Info, Desc }
fn alphabet() -> Vec<Req> {
    let mut v = Vec::new();
    let base: Vec<(&'static str, Exp)> = vec![
        (r#""method":"org.varlink.service.GetInfo""#, Exp::Info),
        (r#""method":"org.varlink.service.GetInterfaceDescription","parameters":{"interface":"org.example.t"}"#, Exp::Desc),
        (r#""method":"org.varlink.service.GetInterfaceDescription","parameters":{"interface":"nope"}"#, Exp::ErrorWith("org.varlink.service.InvalidParameter", "parameter", "interface")),
        (r#""method":"org.varlink.service.GetInterfaceDescription""#, Exp::ErrorWith("org.varlink.service.InvalidParameter", "parameter", "parameters")),
        (r#""method":"org.varlink.service.Nope""#, Exp::ErrorWith("org.varlink.service.MethodNotFound", "method", "org.varlink.service.Nope")),
        (r#""method":"org.varlink.service.XGetInfo""#, Exp::ErrorWith("org.varlink.service.MethodNotFound", "method", "org.varlink.service.XGetInfo")),
        (r#""method":"org.varlink.service.GetInterfaceDescriptionX","parameters":{"interface":"org.example.t"}"#, Exp::ErrorWith("org.varlink.service.MethodNotFound", "method", "org.varlink.service.GetInterfaceDescriptionX")),
        (r#""method":"org.example.t.Ok""#, Exp::Params),
        (r#""method":"org.example.t.Fail""#, Exp::Error("org.example.t.Failed")),
        (r#""method":"org.example.t.Nope""#, Exp::ErrorWith("org.varlink.service.MethodNotFound", "method", "org.example.t.Nope")),
        (r#""method":"org.example.u.Ok""#, Exp::ErrorWith("org.varlink.service.InterfaceNotFound", "interface", "org.example.u")),
        (r#""method":"org.example.t.sub.Ok""#, Exp::ErrorWith("org.varlink.service.InterfaceNotFound", "interface", "org.example.t.sub")),
        (r#""method":"org.varlink.service.extra.Foo""#, Exp::ErrorWith("org.varlink.service.InterfaceNotFound", "interface", "org.varlink.service.extra")),
        (r#""method":"nodot""#, Exp::ErrorWith("org.varlink.service.InterfaceNotFound", "interface", "nodot")),
        // a trailing dot is still a dot: the interface is the text before it, the (empty) method is what that interface lacks
        (r#""method":"org.example.t.""#, Exp::ErrorWith("org.varlink.service.MethodNotFound", "method", "org.example.t.")),
        (r#""method":"org.example.nope.""#, Exp::ErrorWith("org.varlink.service.InterfaceNotFound", "interface", "org.example.nope")),
        (r#""method":"org.varlink.service.""#, Exp::ErrorWith("org.varlink.service.MethodNotFound", "method", "org.varlink.service.")),
        (r#""method":"org.example.t.Stream""#, Exp::Params),
    ];
    for (t, e) in base {
        v.push(Req { text: t, oneway: false, more: false, expect: e.clone() });
        v.push(Req { text: t, oneway: true, more: false, expect: Exp::Nothing });
    }
    v.push(Req { text: r#""method":"org.example.t.Stream""#, oneway: false, more: true, expect: Exp::Stream3 });
    v.push(Req { text: r#""method":"org.varlink.service.GetInfo","oneway":false"#, oneway: false, more: false, expect: Exp::Info });
    v.push(Req { text: r#""method":"org.example.t.Stream","more":false"#, oneway: false, more: false, expect: Exp::Params });
    v.push(Req { text: r#""method":"org.example.t.Stream""#, oneway: true, more: true, expect: Exp::Nothing });
    v.push(Req { text: r#""method":"org.varlink.service.GetInfo""#, oneway: true, more: true, expect: Exp::Nothing });
    v.push(Req { text: r#""method":"org.varlink.service.GetInfo""#, oneway: false, more: true, expect: Exp::Info });
    v
}
fn render(r: &Req) -> Vec<u8> {
    let mut s = String::from("{");
    s.push_str(r.text);
    if r.oneway { s.push_str(r#","oneway":true"#); }
    if r.more { s.push_str(r#","more":true"#); }
    s.push_str("}\0");
    s.into_bytes()
}
fn split_replies(out: &[u8]) -> (Vec<Value>, Vec<u8>) {
    let mut v = Vec::new();
    let mut rest = out;
    while let Some(p) = rest.iter().position(|b| *b == 0) {
        v.push(serde_json::from_slice(&rest[..p]).unwrap_or(Value::String(String::from_utf8_lossy(&rest[..p]).to_string())));
        rest = &rest[p + 1..];
    }
    (v, rest.to_vec())
}
fn expected_shapes(seq: &[Req]) -> Vec<String> {
    let mut e = Vec::new();
    for r in seq {
        match &r.expect {
            Exp::Params => e.push("params".to_string()),
            Exp::Info => e.push("info".to_string()),
            Exp::Desc => e.push("desc".to_string()),
            Exp::Error(n) => e.push(format!("error:{}", n)),
            Exp::ErrorWith(n, k, v) => e.push(format!("error:{}:{}={}", n, k, v)),
            Exp::Stream3 => { e.push("cont".into()); e.push("cont".into()); e.push("params".into()); }
            Exp::Nothing | Exp::CloseAfterNothing => {}
        }
    }
    e
}
fn shape(v: &Value) -> String {
    if let Some(e) = v.get("error").and_then(|e| e.as_str()) {
        if e.starts_with("org.varlink.service.") {
            if let Some(o) = v.get("parameters").and_then(|p| p.as_object()) {
                if let Some((k, val)) = o.iter().next() { return format!("error:{}:{}={}", e, k, val.as_str().unwrap_or("?")); }
            }
        }
        return format!("error:{}", e);
    }
    if let Some(p) = v.get("parameters") {
        if p.get("vendor").is_some() {
            let ifs: Vec<&str> = p.get("interfaces").and_then(|i| i.as_array()).map(|a| a.iter().filter_map(|x| x.as_str()).collect()).unwrap_or_default();
            let ok = p.get("vendor") == Some(&json!("v")) && p.get("product") == Some(&json!("p")) && p.get("version") == Some(&json!("1")) && p.get("url") == Some(&json!("u"))
                && ifs.first() == Some(&"org.varlink.service") && ifs.len() == 2 && ifs[1] == "org.example.t";
            return if ok { "info".into() } else { format!("info-wrong:{}", p) };
        }
        if let Some(d) = p.get("description").and_then(|d| d.as_str()) {
            return if d == Scripted.get_description() { "desc".into() } else { "desc-wrong".into() };
        }
    }
    if v.get("continues").and_then(|c| c.as_bool()) == Some(true) { return "cont".into(); }
    "params".into()
}
fn run_handle(input: &[u8], seg: usize) -> (Result<(Vec<u8>, Option<String>), String>, Vec<u8>, usize) {
    let svc = service();
    let mut br = BufReader::with_capacity(std::cmp::max(std::cmp::min(seg, 8192), 1), Seg { data: input.to_vec(), pos: 0, seg });
    let mut out = Vec::new();
    let r = svc.handle(&mut br, &mut out, None).map_err(|e| format!("{:?}", e.kind()));
    let mut left = Vec::new();
    let _ = br.read_to_end(&mut left);
    (r, out, left.len())
}

fn emit(ob: &str, found: bool, explored: usize, detail: Value) {
    println!("{}", json!({"obligation": ob, "found": found, "explored": explored, "detail": detail}));
}

// all sequences of <= 3 requests, all at once and with 1- and 7-byte reads; one oracle per property class:
//   order  (C01): handle returns Ok with nothing left over and the replies are, in order, the expected number of continues/final records
//   route  (C03): every reply has the expected content (error name and parameter, GetInfo / description payload)
//   oneway (C04): the replies are exactly those of the non-oneway requests
//   seg    (C02): the reply bytes do not depend on how the reader segments the stream, nothing is left unread
fn reduce(sh: &[String]) -> Vec<&'static str> { sh.iter().map(|x| if x == "cont" { "cont" } else { "final" }).collect() }
fn search_sequences(obs: &[&str]) {
    let alpha = alphabet();
    let mut explored = 0usize;
    let mut first: std::collections::HashMap<&'static str, Value> = std::collections::HashMap::new();
    let n = alpha.len();
    let mut seqs: Vec<Vec<usize>> = Vec::new();
    for a in 0..n { seqs.push(vec![a]); }
    for a in 0..n { for b in 0..n { seqs.push(vec![a, b]); } }
    for a in (0..n).step_by(2) { for b in (0..n).step_by(3) { for c in 0..n { seqs.push(vec![a, b, c]); } } }
    for idx in seqs {
        let seq: Vec<Req> = idx.iter().map(|i| alpha[*i].clone()).collect();
        let mut input = Vec::new();
        for r in &seq { input.extend(render(r)); }
        let mut whole_out: Option<Vec<u8>> = None;
        for seg in [usize::MAX / 2, 1, 7] {
            explored += 1;
            let inp = input.clone();
            let run = std::panic::catch_unwind(move || run_handle(&inp, seg));
            let (r, out, left) = match run {
                Ok(x) => x,
                Err(_) => { first.entry("panic").or_insert(json!({"input": String::from_utf8_lossy(&input), "observed": "panic in handle()"})); continue; }
            };
            let (replies, rest) = split_replies(&out);
            let shapes: Vec<String> = replies.iter().map(shape).collect();
            let exp = expected_shapes(&seq);
            let describe = |why: &str| json!({"input": String::from_utf8_lossy(&input), "read_size": if seg > 100 { 0 } else { seg }, "why": why,
                "result": format!("{:?}", r.as_ref().map(|(t, u)| (t.len(), u.clone()))), "reply_shapes": shapes, "expected_shapes": exp, "unread_bytes_left_in_reader": left});
            let complete = matches!(&r, Ok((tail, None)) if tail.is_empty()) && left == 0 && rest.is_empty();
            if !(complete && reduce(&shapes) == reduce(&exp)) { first.entry("order").or_insert(describe("number / order / kind (continues vs final) of replies")); }
            if complete && reduce(&shapes) == reduce(&exp) && shapes != exp { first.entry("route").or_insert(describe("reply content")); }
            if seq.iter().any(|q| q.oneway) {
                let nonone: Vec<Req> = seq.iter().filter(|q| !q.oneway).cloned().collect();
                if reduce(&shapes) != reduce(&expected_shapes(&nonone)) {
                    first.entry("oneway").or_insert(json!({"input": String::from_utf8_lossy(&input), "reply_bytes": out.len(), "reply_shapes": shapes, "expected_shapes": expected_shapes(&nonone)}));
                }
            }
            // continues:true only in answer to more: no more `cont` records than the more-requests of the sequence allow
            let cont_allowed = exp.iter().filter(|x| *x == "cont").count();
            if shapes.iter().filter(|x| *x == "cont").count() > cont_allowed {
                first.entry("contflag").or_insert(describe("a reply with continues:true where the request did not carry more:true"));
            }
            match &whole_out {
                None => whole_out = Some(out.clone()),
                Some(w) => if *w != out || left != 0 { first.entry("seg").or_insert(describe("reply bytes differ from the unsegmented run")); }
            }
        }
    }
    for ob in obs {
        let class = if ob.starts_with("C04") { "oneway" } else if *ob == "C05.wire" { "contflag" } else if ob.starts_with("C03") { "route" } else if ob.starts_with("C02") { "seg" }
            else if *ob == "C06.no-panic" { "panic" } else if ob.starts_with("C06") { "none" } else { "order" };
        let f = first.get(class);
        emit(ob, f.is_some(), explored, f.cloned().unwrap_or(Value::Null));
    }
}

// C02: feed the stream in chunks, prepending the returned tail, as the API documents; every single cut and one byte at a time
fn feed_chunks(chunks: &[&[u8]]) -> (Vec<u8>, Vec<u8>, bool) {
    let svc = service();
    let mut out = Vec::new();
    let mut tail: Vec<u8> = Vec::new();
    for c in chunks {
        let mut buf = tail.clone();
        buf.extend_from_slice(c);
        match svc.handle(&mut &buf[..], &mut out, None) {
            Ok((t, None)) => tail = t,
            _ => return (out, tail, false),
        }
    }
    (out, tail, true)
}
// C01 / C02: a request larger than the internal buffers (8 KiB BufReader, and well beyond: 1 MiB, 3 MiB) with two more requests pipelined behind it: all three are answered,
// in order, nothing is left over -- whatever the read segmentation
fn search_large(obs: &[&str]) {
    let mut found = None;
    let mut explored = 0;
    for size in [8191usize, 8192, 8193, 16384, 70_000, (1 << 20) - 1, (1 << 20) + 5, 3 << 20] {
        for seg in [usize::MAX, 8192, 4096, 65536] {
            explored += 1;
            let mut input = Vec::new();
            input.extend_from_slice(b"{\"method\":\"org.varlink.service.GetInfo\",\"parameters\":{\"pad\":\"");
            input.extend(std::iter::repeat(b'x').take(size));
            input.extend_from_slice(b"\"}}\0");
            input.extend_from_slice(b"{\"method\":\"org.example.t.Ok\"}\0{\"method\":\"org.varlink.service.GetInfo\"}\0");
            let (r, out, left) = run_handle(&input, if seg == usize::MAX { input.len() } else { seg });
            let (replies, rest) = split_replies(&out);
            let shapes: Vec<String> = replies.iter().map(shape).collect();
            let ok = matches!(&r, Ok((t, None)) if t.is_empty()) && left == 0 && rest.is_empty() && shapes == vec!["info".to_string(), "params".to_string(), "info".to_string()];
            if !ok && found.is_none() {
                found = Some(json!({"input": format!("GetInfo with a {}-byte string parameter, then org.example.t.Ok, then GetInfo, in one stream", size), "read_segment": if seg == usize::MAX { 0 } else { seg },
                    "handle_returned": format!("{:?}", r.as_ref().map(|(t, i)| (t.len(), i.clone()))), "replies": shapes, "expected": ["info", "params", "info"], "bytes_left_unread": left}));
            }
        }
    }
    for ob in obs { emit(ob, found.is_some(), explored, found.clone().unwrap_or(Value::Null)); }
}

fn search_cuts(obs: &[&str]) {
    let mut found = None;
    let mut explored = 0;
    let streams: Vec<Vec<u8>> = vec![
        [render(&alphabet()[0]), render(&alphabet()[10]), render(&alphabet()[4])].concat(),
        "{\"method\":\"org.ex\u{e4}mple.\u{20ac}\u{1F600}.Ping\",\"parameters\":{\"s\":\"\u{fc}\u{df}\u{20ac}\"}}\0{\"method\":\"org.varlink.service.GetInfo\"}\0{\"method\":\"incompl".as_bytes().to_vec(),
    ];
    for st in &streams {
        let (whole_out, whole_tail, ok) = feed_chunks(&[&st[..]]);
        if !ok { continue; }
        for cut in 0..=st.len() {
            explored += 1;
            let (o, t, ok2) = feed_chunks(&[&st[..cut], &st[cut..]]);
            if (!ok2 || o != whole_out || t != whole_tail) && found.is_none() {
                found = Some(json!({"stream": String::from_utf8_lossy(st), "cut_at_byte": cut, "replies_chunked": String::from_utf8_lossy(&o), "replies_whole": String::from_utf8_lossy(&whole_out),
                    "tail_chunked": format!("{:?}", t), "tail_whole": format!("{:?}", whole_tail), "handle_ok": ok2}));
            }
        }
        explored += 1;
        let singles: Vec<&[u8]> = st.chunks(1).collect();
        let (o, t, ok2) = feed_chunks(&singles);
        if (!ok2 || o != whole_out || t != whole_tail) && found.is_none() {
            found = Some(json!({"stream": String::from_utf8_lossy(st), "cut": "one byte at a time", "replies_chunked": String::from_utf8_lossy(&o), "replies_whole": String::from_utf8_lossy(&whole_out)}));
        }
    }
    for ob in obs { emit(ob, found.is_some(), explored, found.clone().unwrap_or(Value::Null)); }
}

// C05.gate: continues without more must fail and write nothing
fn search_gate(ob: &str) {
    let mut found = None;
    let mut explored = 0;
    for (oneway, more, text) in [(false, false, r#""method":"org.example.t.BadCont""#), (true, false, r#""method":"org.example.t.BadCont""#),
                                 (false, false, r#""method":"org.example.t.BadCont","more":false"#)] {
        explored += 1;
        let r = Req { text, oneway, more, expect: Exp::Nothing };
        let input = render(&r);
        let (res, out, _) = run_handle(&input, usize::MAX / 2);
        if !(res.is_err() && out.is_empty()) && found.is_none() {
            found = Some(json!({"input": String::from_utf8_lossy(&input), "result": format!("{:?}", res.map(|x| x.0.len())), "bytes_written": out.len(), "expected": "Err(CallContinuesMismatch), 0 bytes"}));
        }
    }
    emit(ob, found.is_some(), explored, found.unwrap_or(Value::Null));
}

// C06.no-reply: good frames then a malformed one
fn search_malformed(ob: &str) {
    let bads: Vec<&[u8]> = vec![b"{\0", b"\xff\xfe\0", b"{\"method\":1}\0", b"[]\0", b"\0", b"{\"method\":\"a.b\",\"more\":3}\0", b"nonsense\0"];
    let good = render(&Req { text: r#""method":"org.varlink.service.GetInfo""#, oneway: false, more: false, expect: Exp::Params });
    let mut found = None;
    let mut explored = 0;
    let mut long_bads: Vec<Vec<u8>> = Vec::new();
    long_bads.push(b"{\"method\":\"org.varlink.service.GetInfo\",\"parameters\":{\"x\":\"\xff\xfe\"}}\0".to_vec());
    long_bads.push(b"{\"method\":\"org.varlink.service.Get\xc3Info\"}\0".to_vec());
    for pad in 200..300 {
        let mut m = vec![b'x'; pad];
        m.extend_from_slice("\u{e9}\u{20ac}\u{1F600}".as_bytes());
        m.extend(vec![b'y'; 40]);
        m.push(0);
        long_bads.push(m);
        let mut m2 = vec![b'x'; pad];
        m2.push(0xff);
        m2.extend(vec![b'y'; 300]);
        m2.push(0);
        long_bads.push(m2);
    }
    let mut bads: Vec<&[u8]> = bads;
    for b in &long_bads { bads.push(&b[..]); }
    for k in 0..3 {
        for bad in &bads {
            explored += 1;
            let mut input = Vec::new();
            for _ in 0..k { input.extend(&good); }
            input.extend(*bad);
            input.extend(&good);
            let r = std::panic::catch_unwind(|| run_handle(&input, usize::MAX / 2));
            match r {
                Err(_) => { if found.is_none() { found = Some(json!({"input": String::from_utf8_lossy(&input), "observed": "panic"})); } }
                Ok((res, out, _)) => {
                    let (replies, rest) = split_replies(&out);
                    if !(res.is_err() && replies.len() == k && rest.is_empty()) && found.is_none() {
                        found = Some(json!({"input": String::from_utf8_lossy(&input), "result_is_err": res.is_err(), "replies": replies.len(), "expected_replies": k}));
                    }
                }
            }
        }
    }
    emit(ob, found.is_some(), explored, found.unwrap_or(Value::Null));
}

// C02: upgrade hand-off: bytes after the upgrade request reach call_upgraded in order, exactly once (via handle + re-entry)
fn search_upgrade(ob: &str) {
    let mut found = None;
    let mut explored = 0;
    for seg in [usize::MAX / 2, 1, 5] {
        explored += 1;
        let mut input = render(&Req { text: r#""method":"org.example.t.Up","upgrade":true"#, oneway: false, more: false, expect: Exp::Params });
        input.extend(b"payload-after-upgrade");
        let svc = service();
        let mut br = BufReader::with_capacity(std::cmp::max(std::cmp::min(seg, 4096), 1), Seg { data: input.clone(), pos: 0, seg });
        let mut out = Vec::new();
        let r = svc.handle(&mut br, &mut out, None);
        if let Ok((tail, Some(iface))) = r {
            let mut chained = std::io::Cursor::new(tail).chain(br);
            let mut out2 = Vec::new();
            let mut cr = BufReader::new(&mut chained);
            let _ = svc.handle(&mut cr, &mut out2, Some(iface));
            if out2 != b"UP:payload-after-upgrade" && found.is_none() {
                found = Some(json!({"segment": if seg > 100 { 0 } else { seg }, "upgraded_handler_saw": String::from_utf8_lossy(&out2), "expected": "UP:payload-after-upgrade"}));
            }
        } else if found.is_none() {
            found = Some(json!({"observed": "upgrade request did not return Some(iface)"}));
        }
    }
    emit(ob, found.is_some(), explored, found.unwrap_or(Value::Null));
}

// C02.listen-forward: real socket served by varlink::listen; the client pipelines payload right behind the upgrade request
fn search_listen_forward(ob: &str) {
    use std::os::unix::net::UnixStream;
    let mut found = None;
    let mut explored = 0;
    for (k, payload) in [&b"payload-after-upgrade"[..], &b"x"[..]].iter().enumerate() {
        explored += 1;
        let dir = std::env::temp_dir().join(format!("vx-replay-{}-{}", std::process::id(), k));
        let _ = std::fs::create_dir_all(&dir);
        let path = dir.join("sock");
        let addr = format!("unix:{}", path.display());
        let stop = Arc::new(std::sync::atomic::AtomicBool::new(false));
        let stop2 = stop.clone();
        let a2 = addr.clone();
        let t = std::thread::spawn(move || {
            let _ = varlink::listen(service(), &a2, &varlink::ListenConfig { initial_worker_threads: 1, max_worker_threads: 4, idle_timeout: 0, stop_listening: Some(stop2) });
        });
        std::thread::sleep(Duration::from_millis(200));
        let mut observed = Vec::new();
        if let Ok(mut c) = UnixStream::connect(&path) {
            let mut msg = render(&Req { text: r#""method":"org.example.t.Up","upgrade":true"#, oneway: false, more: false, expect: Exp::Params });
            msg.extend_from_slice(payload);
            let _ = c.write_all(&msg);
            let _ = c.shutdown(std::net::Shutdown::Write);
            let _ = c.set_read_timeout(Some(Duration::from_millis(5000)));
            let _ = c.read_to_end(&mut observed);
        }
        stop.store(true, Ordering::SeqCst);
        let _ = t.join();
        let _ = std::fs::remove_dir_all(&dir);
        let mut want = b"{}\0UP:".to_vec();
        want.extend_from_slice(payload);
        if observed != want && found.is_none() {
            found = Some(json!({"sent_in_one_write": String::from_utf8_lossy(&[&b"<upgrade request>\\0"[..], payload].concat()),
                "client_received": String::from_utf8_lossy(&observed), "expected": String::from_utf8_lossy(&want),
                "meaning": "bytes pipelined behind the upgrade request never reached call_upgraded"}));
        }
    }
    emit(ob, found.is_some(), explored, found.unwrap_or(Value::Null));
}

// C02.no-wait: the upgrade request and the first upgraded-protocol line arrive in ONE write, and the client then WAITS for the handler's answer without sending more or
// closing: the bytes already received must be handed to the upgraded handler without first waiting for more traffic on the connection.
struct ScriptedLine;
impl Interface for ScriptedLine {
    fn get_description(&self) -> &'static str { "interface org.example.l\nmethod Up() -> ()\n" }
    fn get_name(&self) -> &'static str { "org.example.l" }
    fn call_upgraded(&self, call: &mut Call, bufreader: &mut dyn BufRead) -> varlink::Result<Vec<u8>> {
        let mut line = Vec::new();
        let _ = bufreader.read_until(b'\n', &mut line);
        call.writer.write_all(b"UP:").unwrap();
        call.writer.write_all(&line).unwrap();
        let _ = call.writer.flush();
        Err(varlink::context!(varlink::ErrorKind::ConnectionClosed))
    }
    fn call(&self, call: &mut Call) -> varlink::Result<()> { call.to_upgraded(); call.reply_struct(varlink::Reply::parameters(None)) }
}
fn search_no_wait(ob: &str) {
    use std::os::unix::net::UnixStream;
    let mut found = None;
    let mut explored = 0;
    for round in 0..2 {
        explored += 1;
        let dir = std::env::temp_dir().join(format!("vx-replay-nw-{}-{}", std::process::id(), round));
        let _ = std::fs::create_dir_all(&dir);
        let path = dir.join("sock");
        let addr = format!("unix:{}", path.display());
        let stop = Arc::new(std::sync::atomic::AtomicBool::new(false));
        let stop2 = stop.clone();
        let a2 = addr.clone();
        let t = std::thread::spawn(move || {
            let svc = VarlinkService::new("v", "p", "1", "u", vec![Box::new(ScriptedLine)]);
            let _ = varlink::listen(svc, &a2, &varlink::ListenConfig { initial_worker_threads: 1, max_worker_threads: 4, idle_timeout: 0, stop_listening: Some(stop2) });
        });
        std::thread::sleep(Duration::from_millis(200));
        let mut observed = Vec::new();
        let want = b"{}\0UP:hello\n".to_vec();
        let mut c_keep = None;
        if let Ok(mut c) = UnixStream::connect(&path) {
            let mut msg = b"{\"method\":\"org.example.l.Up\",\"upgrade\":true}\0".to_vec();
            msg.extend_from_slice(b"hello\n");
            let _ = c.write_all(&msg);
            // the longer limit of the second round guards against a slow machine: a finding must fail in both
            let _ = c.set_read_timeout(Some(Duration::from_millis(if round == 0 { 3000 } else { 8000 })));
            let mut buf = [0u8; 64];
            while observed.len() < want.len() {
                match c.read(&mut buf) { Ok(0) | Err(_) => break, Ok(n) => observed.extend_from_slice(&buf[..n]) }
            }
            c_keep = Some(c);
        }
        drop(c_keep);
        stop.store(true, Ordering::SeqCst);
        let _ = t.join();
        let _ = std::fs::remove_dir_all(&dir);
        if observed == want { found = None; break; }
        found = Some(json!({"sent_in_one_write": "<upgrade request>\\0hello\\n", "then": "the client waits for the answer, sending nothing more and keeping the connection open",
            "client_received": String::from_utf8_lossy(&observed), "expected": String::from_utf8_lossy(&want),
            "meaning": "the worker waited for more traffic before handing the bytes it already had to the upgraded handler"}));
    }
    emit(ob, found.is_some(), explored, found.unwrap_or(Value::Null));
}

// C17: StringHashSet round trip through text, bytes, value
fn search_stringset(ob: &str) {
    use varlink::StringHashSet;
    let mut found = None;
    let mut explored = 0;
    for keys in [vec![], vec!["a"], vec!["a", "b"], vec!["", "\u{e9}", "q\"uote"]] {
        explored += 1;
        let mut s = StringHashSet::new();
        for k in &keys { s.insert(k.to_string()); }
        let text = serde_json::to_string(&s).unwrap();
        let val = serde_json::to_value(&s).unwrap();
        let shape_ok = val.as_object().map(|o| o.len() == keys.len() && o.values().all(|v| v == &json!({}))).unwrap_or(false);
        let a: Result<StringHashSet, _> = serde_json::from_str(&text);
        let b: Result<StringHashSet, _> = serde_json::from_slice(text.as_bytes());
        let c: Result<StringHashSet, _> = serde_json::from_value(val.clone());
        let ok = shape_ok && a.as_ref().ok() == Some(&s) && b.as_ref().ok() == Some(&s) && c.as_ref().ok() == Some(&s);
        if !ok && found.is_none() {
            found = Some(json!({"set": keys, "text": text, "from_str": format!("{:?}", a.map(|_| "ok")), "from_slice": format!("{:?}", b.map(|_| "ok")), "from_value": format!("{:?}", c.map(|_| "ok")), "object_shape_ok": shape_ok}));
        }
    }
    emit(ob, found.is_some(), explored, found.unwrap_or(Value::Null));
}

// C14: real listen() with a blocking handler; counts concurrently served connections
struct Blocking { active: Arc<AtomicUsize>, peak: Arc<AtomicUsize>, started: Arc<AtomicUsize>, release: Arc<RwLock<bool>> }
impl ConnectionHandler for Blocking {
    fn handle(&self, _r: &mut dyn BufRead, _w: &mut dyn Write, _u: Option<String>) -> varlink::Result<(Vec<u8>, Option<String>)> {
        let a = self.active.fetch_add(1, Ordering::SeqCst) + 1;
        self.peak.fetch_max(a, Ordering::SeqCst);
        self.started.fetch_add(1, Ordering::SeqCst);
        loop {
            if *self.release.read().unwrap() { break; }
            std::thread::sleep(Duration::from_millis(5));
        }
        self.active.fetch_sub(1, Ordering::SeqCst);
        Err(varlink::context!(varlink::ErrorKind::ConnectionClosed))
    }
}
fn pool_run(initial: usize, max: usize, conns: usize, tag: &str) -> (usize, usize) { pool_run_wait(initial, max, conns, tag, 400) }
fn pool_run_wait(initial: usize, max: usize, conns: usize, tag: &str, settle_ms: u64) -> (usize, usize) {
    let addr = format!("unix:@vx-replay-{}-{}-{}", std::process::id(), tag, initial * 100 + max * 10 + conns);
    let active = Arc::new(AtomicUsize::new(0));
    let peak = Arc::new(AtomicUsize::new(0));
    let started = Arc::new(AtomicUsize::new(0));
    let release = Arc::new(RwLock::new(false));
    let stop = Arc::new(std::sync::atomic::AtomicBool::new(false));
    let h = Blocking { active: active.clone(), peak: peak.clone(), started: started.clone(), release: release.clone() };
    let a2 = addr.clone();
    let stop2 = stop.clone();
    let t = std::thread::spawn(move || {
        let _ = varlink::listen(h, &a2, &varlink::ListenConfig { initial_worker_threads: initial, max_worker_threads: max, idle_timeout: 0, stop_listening: Some(stop2) });
    });
    std::thread::sleep(Duration::from_millis(150));
    let mut cs = Vec::new();
    for _ in 0..conns {
        if let Ok(c) = varlink::Connection::with_address(&addr) { cs.push(c); }
    }
    std::thread::sleep(Duration::from_millis(settle_ms));
    let res = (peak.load(Ordering::SeqCst), started.load(Ordering::SeqCst));
    *release.write().unwrap() = true;
    stop.store(true, Ordering::SeqCst);
    drop(cs);
    let _ = t.join();
    res
}
fn search_pool_bound(ob: &str) {
    let mut found = None;
    let mut explored = 0;
    for (i, m, c) in [(1usize, 1usize, 2usize), (1, 2, 4), (2, 2, 4), (1, 3, 5)] {
        explored += 1;
        let (peak, _started) = pool_run(i, m, c, "b");
        if peak > m && found.is_none() {
            found = Some(json!({"initial_worker_threads": i, "max_worker_threads": m, "connections": c, "served_concurrently": peak}));
        }
    }
    emit(ob, found.is_some(), explored, found.unwrap_or(Value::Null));
}
fn search_pool_strand(ob: &str) {
    // a burst of connections below the maximum: every one must start being served without a further connection or a finish
    let mut found = None;
    let mut explored = 0;
    for round in 0..40 {
        for (i, m, c) in [(1usize, 8usize, 3usize), (1, 8, 4), (2, 8, 5)] {
            explored += 1;
            let (_peak, mut started) = pool_run(i, m, c, &format!("s{}", round));
            if started < c {
                // timing guard: a loaded machine may just be slow to start the workers -- the finding must reproduce with a 3 s settle time
                started = pool_run_wait(i, m, c, &format!("r{}", round), 3000).1;
            }
            if started < c && found.is_none() {
                found = Some(json!({"initial_worker_threads": i, "max_worker_threads": m, "connections_opened_in_a_burst": c, "connections_that_started_being_served": started, "round": round}));
            }
        }
        if found.is_some() { break; }
    }
    emit(ob, found.is_some(), explored, found.unwrap_or(Value::Null));
}

// C07: client against a scripted reply stream
struct SharedW(Arc<Mutex<Vec<u8>>>);
impl Write for SharedW {
    fn write(&mut self, b: &[u8]) -> std::io::Result<usize> { self.0.lock().unwrap().extend_from_slice(b); Ok(b.len()) }
    fn flush(&mut self) -> std::io::Result<()> { Ok(()) }
}
fn client_conn(replies: &[u8]) -> (Arc<RwLock<varlink::Connection>>, Arc<Mutex<Vec<u8>>>) {
    let mut c = varlink::Connection::default();
    let w = Arc::new(Mutex::new(Vec::new()));
    let rd: Box<dyn Read + Send + Sync> = Box::new(std::io::Cursor::new(replies.to_vec()));
    c.reader = Some(BufReader::new(rd));
    c.writer = Some(Box::new(SharedW(w.clone())));
    (Arc::new(RwLock::new(c)), w)
}
type MC = varlink::MethodCall<Value, Value, varlink::Error>;
fn search_client(obs: &[&str]) {
    // failures are kept per class: outcome (C07.outcome/kind), reuse (C07.reuse/take), busy (C07.busy), once (C07.once),
    // iter (C05.recv/next/more), oneway (C04.client)
    let mut found: std::collections::HashMap<&'static str, Value> = std::collections::HashMap::new();
    let mut explored = 0;
    let mut fail = |class: &'static str, d: Value| { found.entry(class).or_insert(d); };
    // outcome mapping
    let cases: Vec<(&str, &str)> = vec![
        (r#"{"parameters":{"a":1}}"#, "ok"),
        (r#"{}"#, "ok"),
        (r#"{"error":"org.varlink.service.InterfaceNotFound","parameters":{"interface":"x.y"}}"#, "InterfaceNotFound(\"x.y\")"),
        (r#"{"error":"org.varlink.service.InterfaceNotFound"}"#, "InterfaceNotFound(\"\")"),
        (r#"{"error":"org.varlink.service.InvalidParameter","parameters":{"parameter":"p"}}"#, "InvalidParameter(\"p\")"),
        (r#"{"error":"org.varlink.service.InvalidParameter","parameters":{"parameter":7}}"#, "InvalidParameter(\"\")"),
        (r#"{"error":"org.varlink.service.MethodNotFound","parameters":{"method":"m"}}"#, "MethodNotFound(\"m\")"),
        (r#"{"error":"org.varlink.service.MethodNotImplemented","parameters":{"method":"m"}}"#, "MethodNotImplemented(\"m\")"),
        (r#"{"error":"org.example.Custom","parameters":{"x":1}}"#, "VarlinkErrorReply"),
        // the kind is determined by the FULL error name: look-alikes of the four standard errors carry the full reply
        (r#"{"error":"InvalidParameter","parameters":{"parameter":"foo"}}"#, "VarlinkErrorReply"),
        (r#"{"error":"MethodNotFound","parameters":{"method":"m"}}"#, "VarlinkErrorReply"),
        (r#"{"error":"org.varlink.service.org.varlink.service.MethodNotFound","parameters":{"method":"m"}}"#, "VarlinkErrorReply"),
        (r#"{"error":"org.example.InvalidParameter","parameters":{"parameter":"foo"}}"#, "VarlinkErrorReply"),
        (r#"{"error":"org.varlink.service.InvalidParameterX","parameters":{"parameter":"foo"}}"#, "VarlinkErrorReply"),
        (r#"{"error":"xorg.varlink.service.InterfaceNotFound","parameters":{"interface":"a"}}"#, "VarlinkErrorReply"),
        (r#"{"error":"org.varlink.service.","parameters":{}}"#, "VarlinkErrorReply"),
        (r#"{"error":"","parameters":{}}"#, "VarlinkErrorReply"),
    ];
    for (reply, want) in &cases {
        explored += 1;
        let mut bytes = reply.as_bytes().to_vec();
        bytes.push(0);
        let (conn, _w) = client_conn(&bytes);
        let mut mc = MC::new(conn.clone(), "a.b.C", json!({}));
        let r = mc.call();
        let got = match &r { Ok(_) => "ok".to_string(), Err(e) => format!("{:?}", e.kind()) };
        if !got.starts_with(want) { fail("outcome", json!({"reply": reply, "observed": got, "expected_prefix": want})); }
        // connection usable again
        let c = conn.read().unwrap();
        if c.reader.is_none() || c.writer.is_none() { fail("reuse", json!({"reply": reply, "observed": "connection not returned after the final reply"})); }
    }
    // what goes on the wire is the request with exactly the arguments given: an argument struct that serialises to `{}` (a method whose inputs are all optional and unset) still
    // travels as `"parameters":{}` -- generated dispatch answers a request WITHOUT that member with InvalidParameter("parameters")
    for (args, want) in [(json!({}), json!({})), (json!({"a": null}), json!({"a": null})), (json!({"x": {"y": []}}), json!({"x": {"y": []}}))] {
        explored += 1;
        let (conn, w) = client_conn(b"{}\0");
        let mut mc = MC::new(conn.clone(), "a.b.C", args.clone());
        let _ = mc.call();
        let sent = w.lock().unwrap().clone();
        let body = sent.split(|b| *b == 0).next().unwrap_or(&[]).to_vec();
        let v: Value = serde_json::from_slice(&body).unwrap_or(Value::Null);
        if v.get("method") != Some(&json!("a.b.C")) || v.get("parameters") != Some(&want) {
            fail("wire", json!({"arguments": args, "request_on_the_wire": String::from_utf8_lossy(&body), "expected_member": {"parameters": want}}));
        }
    }
    // busy / once / oneway / more
    {
        explored += 1;
        let stream = b"{\"continues\":true,\"parameters\":{\"n\":1}}\0{\"continues\":true,\"parameters\":{\"n\":2}}\0{\"parameters\":{\"n\":3}}\0{\"parameters\":{\"z\":1}}\0";
        let (conn, w) = client_conn(stream);
        let mut it = MC::new(conn.clone(), "a.b.More", json!({}));
        match it.more() { Ok(_) => {}, Err(e) => fail("iter", json!({"observed": format!("more() failed: {:?}", e.kind())})) }
        let before = w.lock().unwrap().len();
        let mut other = MC::new(conn.clone(), "a.b.Other", json!({}));
        match other.call() { Err(e) if format!("{:?}", e.kind()) == "ConnectionBusy" => {}, x => fail("busy", json!({"observed": format!("call during iteration: {:?}", x.map_err(|e| format!("{:?}", e.kind()))), "expected": "Err(ConnectionBusy)"})) }
        if w.lock().unwrap().len() != before { fail("busy", json!({"observed": "bytes written by a call on a busy connection"})); }
        // one item consumed, the iteration still outstanding: oneway / more / upgrade from other call objects are refused as well
        let mut ow2 = MC::new(conn.clone(), "a.b.OneMore", json!({}));
        match ow2.oneway() { Err(e) if format!("{:?}", e.kind()) == "ConnectionBusy" => {}, x => fail("busy", json!({"observed": format!("oneway() during a `more` iteration: {:?}", x.map_err(|e| format!("{:?}", e.kind()))), "expected": "Err(ConnectionBusy)"})) }
        let mut mo2 = MC::new(conn.clone(), "a.b.MoreMore", json!({}));
        match mo2.more() { Err(e) if format!("{:?}", e.kind()) == "ConnectionBusy" => {}, x => fail("busy", json!({"observed": format!("more() during a `more` iteration: {:?}", x.map(|_| "Ok").map_err(|e| format!("{:?}", e.kind()))), "expected": "Err(ConnectionBusy)"})) }
        let mut up2 = MC::new(conn.clone(), "a.b.UpMore", json!({}));
        match up2.upgrade() { Err(e) if format!("{:?}", e.kind()) == "ConnectionBusy" => {}, x => fail("busy", json!({"observed": format!("upgrade() during a `more` iteration: {:?}", x.map(|_| "Ok").map_err(|e| format!("{:?}", e.kind()))), "expected": "Err(ConnectionBusy)"})) }
        if w.lock().unwrap().len() != before { fail("busy", json!({"observed": "bytes written by oneway()/more()/upgrade() on a busy connection", "written": String::from_utf8_lossy(&w.lock().unwrap()[before..]).to_string()})); }
        let items: Vec<String> = (&mut it).map(|r| match r { Ok(v) => v.to_string(), Err(e) => format!("{:?}", e.kind()) }).collect();
        if items != vec![r#"{"n":1}"#, r#"{"n":2}"#, r#"{"n":3}"#] { fail("iter", json!({"observed_items": items, "expected": ["{\"n\":1}", "{\"n\":2}", "{\"n\":3}"]})); }
        let mut again = MC::new(conn.clone(), "a.b.Next", json!({}));
        match again.call() { Ok(v) if v == json!({"z": 1}) => {}, x => fail("reuse", json!({"observed": format!("call after iteration: {:?}", x.map_err(|e| format!("{:?}", e.kind())))})) }
        // second send on the same object
        match again.call() { Err(e) if format!("{:?}", e.kind()) == "MethodCalledAlready" => {}, x => fail("once", json!({"observed": format!("second send: {:?}", x.map_err(|e| format!("{:?}", e.kind()))), "expected": "Err(MethodCalledAlready)"})) }
    }
    {
        explored += 1;
        let (conn, w) = client_conn(b"{\"parameters\":{\"only\":1}}\0");
        let mut ow = MC::new(conn.clone(), "a.b.One", json!({}));
        if ow.oneway().is_err() { fail("oneway", json!({"observed": "oneway() failed"})); }
        let sent = String::from_utf8_lossy(&w.lock().unwrap()).to_string();
        if !sent.contains("\"oneway\":true") { fail("oneway", json!({"observed": sent, "expected": "request with oneway:true"})); }
        let mut c2 = MC::new(conn.clone(), "a.b.Two", json!({}));
        match c2.call() { Ok(v) if v == json!({"only": 1}) => {}, x => fail("oneway", json!({"observed": format!("call after oneway: {:?}", x.map_err(|e| format!("{:?}", e.kind()))), "expected": "the reply that was in the stream (oneway must not consume it)"})) }
    }
    // a `more` iteration whose final reply is an error ends there: next() yields None afterwards and the connection is free
    for k in 0..3 {
        explored += 1;
        let mut stream = Vec::new();
        for n in 0..k { stream.extend_from_slice(format!("{{\"continues\":true,\"parameters\":{{\"n\":{}}}}}\0", n).as_bytes()); }
        stream.extend_from_slice(b"{\"error\":\"org.example.Boom\"}\0{\"parameters\":{\"after\":1}}\0");
        let (conn, _w) = client_conn(&stream);
        let mut it = MC::new(conn.clone(), "a.b.More", json!({}));
        if it.more().is_err() { fail("iter", json!({"observed": "more() failed"})); continue; }
        let mut items = Vec::new();
        for _ in 0..(k + 6) {
            match it.next() { None => break, Some(r) => items.push(match r { Ok(v) => v.to_string(), Err(e) => format!("Err({:?})", e.kind()).chars().take(24).collect() }) }
        }
        if items.len() != k + 1 { fail("iter", json!({"continues_replies": k, "final": "error reply", "items_yielded_by_next": items, "expected_items": k + 1})); }
        let mut after = MC::new(conn.clone(), "a.b.After", json!({}));
        match after.call() { Ok(v) if v == json!({"after": 1}) => {}, x => fail("reuse", json!({"observed": format!("call after an iteration that ended in an error: {:?}", x.map_err(|e| format!("{:?}", e.kind())))})) }
    }
    // a final reply whose parameters do not decode is an error for that call, and the connection is usable afterwards
    {
        explored += 1;
        #[derive(serde_derive::Deserialize, Debug)]
        struct Typed { #[allow(dead_code)] v: i64 }
        let (conn, _w) = client_conn(b"{\"parameters\":{\"v\":\"not a number\"}}\0{\"parameters\":{\"v\":7}}\0");
        let mut c1 = varlink::MethodCall::<Value, Typed, varlink::Error>::new(conn.clone(), "a.b.T", json!({}));
        if c1.call().is_ok() { fail("outcome", json!({"observed": "ill-typed parameters decoded"})); }
        let mut c2 = varlink::MethodCall::<Value, Typed, varlink::Error>::new(conn.clone(), "a.b.T", json!({}));
        match c2.call() { Ok(_) => {}, Err(e) => fail("reuse", json!({"observed": format!("call after a reply with ill-typed parameters: {:?}", e.kind()), "expected": "Ok (the connection is usable again after the final reply)"})) }
    }
    drop(fail);
    for ob in obs {
        let class = match *ob { "C07.outcome" | "C07.kind" => "outcome", "C07.reuse" | "C07.take" => "reuse", "C07.busy" => "busy", "C07.once" => "once",
            "C05.recv" | "C05.next" | "C05.more" => "iter", "C04.client" => "oneway", "C07.wire" | "C08.client" => "wire", _ => "none" };
        let f = found.get(class);
        emit(ob, f.is_some(), explored, f.cloned().unwrap_or(Value::Null));
    }
}


// C07 (threads): a call whose request is still being serialised while another thread starts a `more` iteration on the same connection
struct Gate { entered: std::sync::atomic::AtomicBool, release: std::sync::atomic::AtomicBool }
struct SlowArgs { gate: Arc<Gate> }
impl serde::Serialize for SlowArgs {
    fn serialize<S: serde::Serializer>(&self, s: S) -> Result<S::Ok, S::Error> {
        use serde::ser::SerializeMap;
        self.gate.entered.store(true, Ordering::SeqCst);
        let t0 = std::time::Instant::now();
        while !self.gate.release.load(Ordering::SeqCst) && t0.elapsed() < Duration::from_millis(1500) { std::thread::sleep(Duration::from_millis(2)); }
        let m = s.serialize_map(Some(0))?;
        m.end()
    }
}
fn search_client_threads(obs: &[&str]) {
    let mut found = None;
    let mut explored = 0;
    for _round in 0..3 {
        explored += 1;
        let (conn, _w) = client_conn(b"{\"continues\":true,\"parameters\":{\"n\":1}}\0{\"parameters\":{\"n\":2}}\0{\"parameters\":{\"x\":1}}\0");
        let gate = Arc::new(Gate { entered: Default::default(), release: Default::default() });
        let (c2, g2) = (conn.clone(), gate.clone());
        let a = std::thread::spawn(move || {
            let mut mc = varlink::MethodCall::<SlowArgs, Value, varlink::Error>::new(c2, "a.b.Slow", SlowArgs { gate: g2 });
            mc.call().map(|_| ()).map_err(|e| format!("{:?}", e.kind()))
        });
        let t0 = std::time::Instant::now();
        while !gate.entered.load(Ordering::SeqCst) && t0.elapsed() < Duration::from_secs(5) { std::thread::sleep(Duration::from_millis(1)); }
        let g3 = gate.clone();
        let rel = std::thread::spawn(move || { std::thread::sleep(Duration::from_millis(150)); g3.release.store(true, Ordering::SeqCst); });
        let mut b = MC::new(conn.clone(), "a.b.Stream", json!({}));
        let b_res = b.more().map(|_| ()).map_err(|e| format!("{:?}", e.kind()));
        let _ = rel.join();
        let a_res = a.join();
        let poisoned = conn.write().is_err();
        let a_txt = match &a_res { Ok(r) => format!("{:?}", r), Err(_) => "PANIC".to_string() };
        let clean = |r: &Result<(), String>| r.is_ok() || r.as_ref().err().map(|e| e == "ConnectionBusy").unwrap_or(false);
        let both_ok = matches!(&a_res, Ok(Ok(()))) && b_res.is_ok();
        if (a_res.is_err() || poisoned || !clean(&b_res) || !a_res.as_ref().map(clean).unwrap_or(false) || both_ok) && found.is_none() {
            found = Some(json!({"thread_A_call_with_slow_serialisation": a_txt, "thread_B_more": format!("{:?}", b_res), "connection_lock_poisoned": poisoned,
                "expected": "each operation either completes or fails with ConnectionBusy; never both outstanding; no panic"}));
        }
    }
    for ob in obs { emit(ob, found.is_some(), explored, found.clone().unwrap_or(Value::Null)); }
}

// C15: idle timeout measured from the last accepted connection; queued connections are served before listen() returns
fn search_listen_time(obs: &[&str]) {
    use std::os::unix::net::UnixStream;
    let mut found = None;
    let mut explored = 0;
    // (a) idle timeout with a stop flag configured (never set): a connection arriving mid-way restarts the countdown
    {
        explored += 1;
        let dir = std::env::temp_dir().join(format!("vx-replay-idle-{}", std::process::id()));
        let _ = std::fs::create_dir_all(&dir);
        let path = dir.join("sock");
        let addr = format!("unix:{}", path.display());
        let stop = Arc::new(std::sync::atomic::AtomicBool::new(false));
        let t0 = std::time::Instant::now();
        let t = std::thread::spawn(move || {
            let r = varlink::listen(service(), &addr, &varlink::ListenConfig { initial_worker_threads: 1, max_worker_threads: 4, idle_timeout: 1, stop_listening: Some(stop) });
            (r.map_err(|e| format!("{:?}", e.kind())), std::time::Instant::now())
        });
        std::thread::sleep(Duration::from_millis(600));
        let t_conn = std::time::Instant::now();
        if let Ok(mut c) = UnixStream::connect(&path) {
            let _ = c.write_all(&render(&alphabet()[0]));
            let mut b = [0u8; 4096];
            let _ = c.set_read_timeout(Some(Duration::from_millis(500)));
            let _ = c.read(&mut b);
        }
        let (r, t_ret) = t.join().unwrap_or((Err("PANIC".into()), std::time::Instant::now()));
        let since_conn = t_ret.duration_since(t_conn).as_millis() as u64;
        let _ = std::fs::remove_dir_all(&dir);
        if (r != Err("Timeout".to_string()) || since_conn < 950) && found.is_none() {
            found = Some(json!({"idle_timeout_s": 1, "stop_flag": "configured, never set", "connection_at_ms": 600, "listen_result": format!("{:?}", r),
                "returned_ms_after_last_connection": since_conn, "returned_ms_after_start": t_ret.duration_since(t0).as_millis() as u64, "expected": ">= 1000 ms after the last connection"}));
        }
    }
    // (b) a connection queued behind a long-lived one when the stop flag is set is still served to completion
    {
        explored += 1;
        let dir = std::env::temp_dir().join(format!("vx-replay-drain-{}", std::process::id()));
        let _ = std::fs::create_dir_all(&dir);
        let path = dir.join("sock");
        let addr = format!("unix:{}", path.display());
        let stop = Arc::new(std::sync::atomic::AtomicBool::new(false));
        let stop2 = stop.clone();
        let t = std::thread::spawn(move || varlink::listen(service(), &addr, &varlink::ListenConfig { initial_worker_threads: 1, max_worker_threads: 1, idle_timeout: 0, stop_listening: Some(stop2) }).map_err(|e| format!("{:?}", e.kind())));
        std::thread::sleep(Duration::from_millis(200));
        let a = UnixStream::connect(&path);
        std::thread::sleep(Duration::from_millis(150));
        let mut got = Vec::new();
        if let Ok(mut b) = UnixStream::connect(&path) {
            let _ = b.write_all(&render(&alphabet()[0]));
            std::thread::sleep(Duration::from_millis(150));
            stop.store(true, Ordering::SeqCst);
            std::thread::sleep(Duration::from_millis(300));
            drop(a);
            let _ = b.set_read_timeout(Some(Duration::from_millis(6000)));
            let mut buf = [0u8; 4096];
            if let Ok(n) = b.read(&mut buf) { got.extend_from_slice(&buf[..n]); }
        }
        let r = t.join().unwrap_or(Err("PANIC".into()));
        let _ = std::fs::remove_dir_all(&dir);
        if (got.is_empty() || r.is_err()) && found.is_none() {
            found = Some(json!({"workers": "initial = max = 1", "history": "A connects and stays idle; B connects and sends GetInfo (queued); stop flag set; A disconnects",
                "reply_bytes_received_by_B": got.len(), "listen_result": format!("{:?}", r), "expected": "B is served before listen() returns Ok"}));
        }
    }
    // (d) saturation: one worker, A in service, B queued behind it; A leaves, B is served and STAYS connected across more than the idle timeout: listen() must not give up
    //     ("never while a connection is still being served"); it returns only after B has left
    {
        explored += 1;
        let dir = std::env::temp_dir().join(format!("vx-replay-sat-{}", std::process::id()));
        let _ = std::fs::create_dir_all(&dir);
        let path = dir.join("sock");
        let addr = format!("unix:{}", path.display());
        let t = std::thread::spawn(move || {
            let r = varlink::listen(service(), &addr, &varlink::ListenConfig { initial_worker_threads: 1, max_worker_threads: 1, idle_timeout: 1, stop_listening: None });
            (r.map_err(|e| format!("{:?}", e.kind())), std::time::Instant::now())
        });
        std::thread::sleep(Duration::from_millis(200));
        let a = UnixStream::connect(&path);
        std::thread::sleep(Duration::from_millis(150));
        let b = UnixStream::connect(&path);
        let mut b_reply = Vec::new();
        let mut c_reply: Vec<u8> = Vec::new();
        let mut c_conn: Option<UnixStream> = None;
        let mut t_b_closed = std::time::Instant::now();
        if let Ok(mut b) = b {
            let _ = b.write_all(&render(&alphabet()[0]));
            std::thread::sleep(Duration::from_millis(150));
            drop(a);
            let _ = b.set_read_timeout(Some(Duration::from_millis(4000)));
            let mut buf = [0u8; 4096];
            if let Ok(n) = b.read(&mut buf) { b_reply.extend_from_slice(&buf[..n]); }
            // B stays connected, idle, for 2.2 s (more than twice the idle timeout); 1.6 s into that, C connects and sends a request: it is queued behind B
            std::thread::sleep(Duration::from_millis(1600));
            let c = UnixStream::connect(&path);
            if let Ok(mut c) = c { let _ = c.write_all(&render(&alphabet()[0])); c_conn = Some(c); }
            std::thread::sleep(Duration::from_millis(600));
            t_b_closed = std::time::Instant::now();
            drop(b);
            if let Some(c) = c_conn.as_mut() {
                let _ = c.set_read_timeout(Some(Duration::from_millis(4000)));
                let mut buf = [0u8; 4096];
                if let Ok(n) = c.read(&mut buf) { c_reply.extend_from_slice(&buf[..n]); }
            }
            drop(c_conn.take());
        }
        let (r, t_ret) = t.join().unwrap_or((Err("PANIC".into()), std::time::Instant::now()));
        let _ = std::fs::remove_dir_all(&dir);
        let early = t_ret < t_b_closed && t_b_closed.duration_since(t_ret).as_millis() > 300;
        if (b_reply.is_empty() || early || c_reply.is_empty()) && found.is_none() {
            found = Some(json!({"workers": "initial = max = 1", "idle_timeout_s": 1, "history": "A connects; B connects and sends GetInfo (queued); A leaves; B is answered and stays connected for 2.2 s; C connects 1.6 s into that and sends GetInfo; B leaves",
                "reply_bytes_received_by_B": b_reply.len(), "reply_bytes_received_by_C": c_reply.len(), "listen_result": format!("{:?}", r),
                "listen_returned_ms_before_B_left": if t_ret < t_b_closed { t_b_closed.duration_since(t_ret).as_millis() as u64 } else { 0 },
                "expected": "listen() keeps accepting while B is connected: C is accepted and answered once B has left"}));
        }
    }
    // (c) idle timeout AND stop flag: the flag is set shortly before the idle deadline, nothing in service: listen() must return Ok(()) ("stops accepting shortly after the flag is set and
    //     returns successfully"), never the idle Timeout error well after the flag was set.  Timing based: several offsets, and a finding must show in TWO separate attempts.
    {
        let mut hits = Vec::new();
        for (k, off) in [905u64, 925, 945, 965, 935, 955].iter().enumerate() {
            explored += 1;
            let dir = std::env::temp_dir().join(format!("vx-replay-stoprace-{}-{}", std::process::id(), k));
            let _ = std::fs::create_dir_all(&dir);
            let addr = format!("unix:{}", dir.join("sock").display());
            let stop = Arc::new(std::sync::atomic::AtomicBool::new(false));
            let stop2 = stop.clone();
            let t = std::thread::spawn(move || {
                let t_start = std::time::Instant::now();
                let r = varlink::listen(service(), &addr, &varlink::ListenConfig { initial_worker_threads: 1, max_worker_threads: 2, idle_timeout: 1, stop_listening: Some(stop2) });
                (r.map_err(|e| format!("{:?}", e.kind())), t_start, std::time::Instant::now())
            });
            std::thread::sleep(Duration::from_millis(*off));
            let t_flag = std::time::Instant::now();
            stop.store(true, Ordering::SeqCst);
            let (r, _t_start, t_ret) = t.join().unwrap_or((Err("PANIC".into()), t_flag, t_flag));
            let _ = std::fs::remove_dir_all(&dir);
            if t_ret > t_flag {
                let after = t_ret.duration_since(t_flag).as_millis() as u64;
                if r == Err("Timeout".to_string()) && after >= 30 { hits.push(json!({"flag_set_at_ms": off, "listen_result": "Err(Timeout)", "returned_ms_after_flag": after})); }
            }
            if hits.len() >= 2 { break; }
        }
        if hits.len() >= 2 && found.is_none() {
            found = Some(json!({"idle_timeout_s": 1, "stop_flag": "set shortly before the idle deadline, no connection", "attempts_that_failed": hits,
                "expected": "Ok(()) from the poll that follows the flag (the flag is looked at before the idle countdown gives up)"}));
        }
    }
    for ob in obs { emit(ob, found.is_some(), explored, found.clone().unwrap_or(Value::Null)); }
}

// C15.unlink: the filesystem socket listen() created is gone after it returns
fn search_unlink(ob: &str) {
    let mut found = None;
    let dir = std::env::temp_dir().join(format!("vx-replay-unlink-{}", std::process::id()));
    let _ = std::fs::create_dir_all(&dir);
    let path = dir.join("sock");
    let addr = format!("unix:{};mode=0660", path.display());
    let stop = Arc::new(std::sync::atomic::AtomicBool::new(false));
    let stop2 = stop.clone();
    let t = std::thread::spawn(move || varlink::listen(service(), &addr, &varlink::ListenConfig { initial_worker_threads: 1, max_worker_threads: 2, idle_timeout: 0, stop_listening: Some(stop2) }).map_err(|e| format!("{:?}", e.kind())));
    std::thread::sleep(Duration::from_millis(250));
    let existed = path.exists();
    stop.store(true, Ordering::SeqCst);
    let r = t.join().unwrap_or(Err("PANIC".into()));
    let still = path.exists();
    let _ = std::fs::remove_dir_all(&dir);
    if !existed || still || r.is_err() {
        found = Some(json!({"address": "unix:<tmp>/sock;mode=0660", "socket_file_existed_while_listening": existed, "socket_file_exists_after_listen_returned": still, "listen_result": format!("{:?}", r)}));
    }
    emit(ob, found.is_some(), 1, found.unwrap_or(Value::Null));
}

// C03.info: every registered interface is listed exactly once, also when the same name is registered twice
fn search_info_dups(ob: &str) {
    struct Named(&'static str);
    impl Interface for Named {
        fn get_description(&self) -> &'static str { "interface org.example.x\nmethod A() -> ()\n" }
        fn get_name(&self) -> &'static str { self.0 }
        fn call_upgraded(&self, _call: &mut Call, _b: &mut dyn BufRead) -> varlink::Result<Vec<u8>> { Ok(Vec::new()) }
        fn call(&self, call: &mut Call) -> varlink::Result<()> { call.reply_struct(varlink::Reply::parameters(None)) }
    }
    let configs: Vec<Vec<&'static str>> = vec![vec!["org.example.t", "org.example.t"], vec!["org.example.a", "org.example.b", "org.example.a"], vec!["org.example.a", "org.example.a", "org.example.b"],
        vec!["org.example.b", "org.example.a", "org.example.a", "org.example.b"], vec!["org.example.a", "org.example.b", "org.example.c", "org.example.a", "org.example.b"], vec![]];
    let mut found = None;
    let mut explored = 0;
    for cfg in configs {
        explored += 1;
        let svc = VarlinkService::new("v", "p", "1", "u", cfg.iter().map(|n| Box::new(Named(n)) as Box<dyn Interface + Send + Sync>).collect());
        let input = render(&alphabet()[0]);
        let mut out = Vec::new();
        let _ = svc.handle(&mut &input[..], &mut out, None);
        let (replies, _) = split_replies(&out);
        let ifs: Vec<String> = replies.get(0).and_then(|r| r.get("parameters")).and_then(|p| p.get("interfaces")).and_then(|i| i.as_array())
            .map(|a| a.iter().filter_map(|x| x.as_str().map(|s| s.to_string())).collect()).unwrap_or_default();
        let mut want: Vec<String> = cfg.iter().map(|s| s.to_string()).collect();
        want.sort(); want.dedup();
        let mut rest: Vec<String> = ifs.iter().skip(1).cloned().collect();
        rest.sort();
        let ok = ifs.first().map(|s| s.as_str()) == Some("org.varlink.service") && rest == want;
        if !ok && found.is_none() { found = Some(json!({"registered": cfg, "GetInfo.interfaces": ifs, "expected": "org.varlink.service first, then every registered name exactly once"})); }
    }
    emit(ob, found.is_some(), explored, found.unwrap_or(Value::Null));
}

// C16 (address-form slice): unknown schemes are rejected by client and server with InvalidAddress; `;` parameters are cut off
fn search_address(obs: &[&str]) {
    let mut found: std::collections::HashMap<&'static str, Value> = std::collections::HashMap::new();
    let mut explored = 0;
    for a in ["", "foo:bar", "unixx:/tmp/x", "UNIX:/tmp/x", "tcp", "unix", "http://x", "tcp;127.0.0.1:1", " unix:/tmp/x", "un:ix:", "ucp:1"] {
        explored += 1;
        let c = varlink::Connection::with_address(a).map(|_| ()).map_err(|e| format!("{:?}", e.kind()));
        let l = varlink::Listener::new(a).map(|_| ()).map_err(|e| format!("{:?}", e.kind()));
        if c != Err("InvalidAddress".to_string()) || l != Err("InvalidAddress".to_string()) {
            found.entry("scheme").or_insert(json!({"address": a, "client": format!("{:?}", c), "server": format!("{:?}", l), "expected": "Err(InvalidAddress) on both sides"}));
        }
    }
    {
        explored += 1;
        let dir = std::env::temp_dir().join(format!("vx-replay-addr-{}", std::process::id()));
        let _ = std::fs::create_dir_all(&dir);
        let path = dir.join("s");
        let with_params = format!("unix:{};mode=0600;foo=bar", path.display());
        let l = varlink::Listener::new(&with_params);
        let bound_plain = path.exists();
        let c = varlink::Connection::with_address(&with_params).map(|_| ()).map_err(|e| format!("{:?}", e.kind()));
        if l.is_err() || !bound_plain || c.is_err() {
            found.entry("params").or_insert(json!({"address": "unix:<dir>/s;mode=0600;foo=bar", "server_bound": l.is_ok(), "socket_at_plain_path": bound_plain, "client_connect": format!("{:?}", c)}));
        }
        drop(l);
        let _ = std::fs::remove_dir_all(&dir);
    }
    // every supported tcp spelling reaches a listening socket: IPv4 literal, bracketed IPv6 literal, host name; client and server side (Listener::new binds the same spellings)
    for (bind_to, spellings) in [("127.0.0.1:0", vec!["127.0.0.1", "localhost"]), ("[::1]:0", vec!["[::1]"])] {
        let l = match std::net::TcpListener::bind(bind_to) { Ok(l) => l, Err(_) => continue };   // no such address family in this sandbox: nothing to check
        let port = l.local_addr().map(|a| a.port()).unwrap_or(0);
        let _ = l.set_nonblocking(true);
        for host in spellings {
            explored += 1;
            let addr = format!("tcp:{}:{}", host, port);
            let c = varlink::Connection::with_address(&addr).map(|_| ()).map_err(|e| format!("{:?}", e.kind()));
            // `localhost` may resolve to the other family first: only a refusal of a literal is a finding
            if c.is_err() && host != "localhost" {
                found.entry("scheme").or_insert(json!({"address": addr, "client": format!("{:?}", c), "expected": "Ok: a tcp listener is bound to that address"}));
            }
        }
    }
    for spelling in ["tcp:127.0.0.1:0", "tcp:[::1]:0"] {
        if std::net::TcpListener::bind(&spelling[4..]).is_err() { continue; }
        explored += 1;
        let l = varlink::Listener::new(spelling).map(|_| ()).map_err(|e| format!("{:?}", e.kind()));
        if l.is_err() { found.entry("scheme").or_insert(json!({"address": spelling, "server": format!("{:?}", l), "expected": "Ok: std binds that address"})); }
    }
    for ob in obs {
        let class = if *ob == "C16.params" { "params" } else if *ob == "C16.scheme" { "scheme" } else { "none" };
        let f = found.get(class);
        emit(ob, f.is_some(), explored, f.cloned().unwrap_or(Value::Null));
    }
}

// C11 (slice): duplicate member names are rejected and named; otherwise member names per kind mirror the order of appearance
fn search_idl(obs: &[&str]) {
    use std::convert::TryFrom;
    use varlink_parser::IDL;
    let mut found: std::collections::HashMap<&'static str, Value> = std::collections::HashMap::new();
    let mut explored = 0;
    let member = |kind: &str, name: &str| match kind { "method" => format!("method {}() -> ()", name), "type" => format!("type {} (a: int)", name), _ => format!("error {} (b: string)", name) };
    let kinds = ["method", "type", "error"];
    for k1 in kinds { for k2 in kinds { for same in [true, false] { for filler in [0usize, 1, 2] {
        explored += 1;
        let n2 = if same { "Foo" } else { "Bar" };
        let mut text = String::from("interface org.example.dup\n");
        text += &member(k1, "Foo"); text.push('\n');
        for f in 0..filler { text += &member(kinds[f % 3], &format!("Fill{}", f)); text.push('\n'); }
        text += &member(k2, n2); text.push('\n');
        match IDL::try_from(text.as_str()) {
            Ok(i) => {
                if same { found.entry("dups").or_insert(json!({"text": text, "observed": "accepted", "expected": "Err(Idl) naming Foo"})); }
                let all: Vec<&str> = i.method_keys.iter().chain(i.typedef_keys.iter()).chain(i.error_keys.iter()).cloned().collect();
                let mut want: Vec<String> = vec!["Foo".into()]; for f in 0..filler { want.push(format!("Fill{}", f)); } want.push(n2.into());
                let mut per_kind_ok = all.len() == want.len();
                for (kind, keys) in [("method", &i.method_keys), ("type", &i.typedef_keys), ("error", &i.error_keys)] {
                    let mut w: Vec<String> = Vec::new();
                    if k1 == kind { w.push("Foo".into()); }
                    for f in 0..filler { if kinds[f % 3] == kind { w.push(format!("Fill{}", f)); } }
                    if k2 == kind { w.push(n2.into()); }
                    if keys.iter().map(|s| s.to_string()).collect::<Vec<_>>() != w { per_kind_ok = false; }
                }
                if !same && !per_kind_ok { found.entry("order").or_insert(json!({"text": text, "method_keys": i.method_keys, "typedef_keys": i.typedef_keys, "error_keys": i.error_keys})); }
            }
            Err(varlink_parser::Error::Idl(msg)) => {
                if !same { found.entry("nofalse").or_insert(json!({"text": text, "observed": format!("rejected: {}", msg), "expected": "accepted (all names distinct)"})); }
                else if !msg.contains("`Foo`") { found.entry("dups").or_insert(json!({"text": text, "error": msg, "expected": "the duplicated name Foo named in the error"})); }
            }
            Err(e) => { found.entry("syntax").or_insert(json!({"text": text, "observed": format!("{}", e)})); }
        }
    }}}}
    // mirror: documentation comments, field names and types are those of the source -- also when the trivia around a comment is one of the grammar's exotic white space characters
    // (a byte order mark, U+180E, U+2028 ...), which belong to the white space, not to the comment
    for ws in ["", " ", "\u{feff}", "\u{180e}", "\u{2028}", "\u{a0}\u{3000}", "\r\n"] {
        explored += 1;
        let text = format!("{ws}# The interface{ws}\n{ws}interface org.example.doc\n\n{ws}# A type\n# second line{ws}\ntype T (a: int, b: ?[]string)\n\n{ws}# A method{ws}\nmethod M(x: T) -> (y: (p, q))\n\n{ws}# An error{ws}\nerror E (why: string){ws}\n", ws = ws);
        match IDL::try_from(text.as_str()) {
            Ok(i) => {
                let got = json!({"interface": i.doc, "type": i.typedefs.get("T").map(|t| t.doc), "method": i.methods.get("M").map(|t| t.doc), "error": i.errors.get("E").map(|t| t.doc),
                    "method_in": i.methods.get("M").map(|m| m.input.elts.iter().map(|a| a.name).collect::<Vec<_>>()), "type_fields": i.typedefs.get("T").map(|t| match &t.elt { varlink_parser::VStructOrEnum::VStruct(s) => s.elts.iter().map(|a| format!("{}: {}", a.name, a.vtype)).collect::<Vec<_>>(), _ => vec![] })});
                let want = json!({"interface": "# The interface", "type": "# A type\n# second line", "method": "# A method", "error": "# An error", "method_in": ["x"], "type_fields": ["a: int", "b: ?[]string"]});
                if got != want { found.entry("order").or_insert(json!({"text": text, "white_space_around_comments": ws.escape_unicode().to_string(), "observed": got, "expected": want})); }
            }
            Err(e) => { found.entry("order").or_insert(json!({"text": text, "white_space_around_comments": ws.escape_unicode().to_string(), "observed": format!("rejected: {}", e)})); }
        }
    }
    for ob in obs {
        let class = match *ob { "C11.dups-reported" | "C11.reject-dups" => "dups", "C11.no-false-dups" | "C11.accept" => "nofalse", "C11.order" | "C11.mirror" => "order", "C11.reject-syntax" => "syntax", _ => "none" };
        let f = found.get(class);
        emit(ob, f.is_some(), explored, f.cloned().unwrap_or(Value::Null));
    }
}

// C17: Request / Reply round trips over the full flag domain {unset, true, false}
fn search_wire_roundtrip(obs: &[&str]) {
    let mut found = None;
    let mut explored = 0;
    let flags = [None, Some(true), Some(false)];
    for more in flags { for oneway in flags { for upgrade in flags { for params in [None, Some(json!({"a": [1, "x", null]})), Some(json!({})), Some(json!([])), Some(json!({"n": {}}))] {
        explored += 1;
        let mut r = varlink::Request::create("a.b.C", params.clone());
        r.more = more; r.oneway = oneway; r.upgrade = upgrade;
        let text = serde_json::to_string(&r).unwrap();
        let val = serde_json::to_value(&r).unwrap();
        let a: Option<varlink::Request> = serde_json::from_str(&text).ok();
        let b: Option<varlink::Request> = serde_json::from_slice(text.as_bytes()).ok();
        let c: Option<varlink::Request> = serde_json::from_value(val.clone()).ok();
        let omitted_ok = val.as_object().map(|o| o.contains_key("more") == more.is_some() && o.contains_key("oneway") == oneway.is_some() && o.contains_key("upgrade") == upgrade.is_some() && o.contains_key("parameters") == params.is_some()).unwrap_or(false);
        if !(a.as_ref() == Some(&r) && b.as_ref() == Some(&r) && c.as_ref() == Some(&r) && omitted_ok) && found.is_none() {
            found = Some(json!({"request": format!("{:?}", r), "serialized": text, "from_str_equal": a.as_ref() == Some(&r), "from_value_equal": c.as_ref() == Some(&r), "unset_members_omitted_and_set_members_present": omitted_ok}));
        }
    }}}}
    for cont in flags { for err in [None, Some("org.example.E")] { for params in [Some(json!({"k": "v"})), None, Some(json!({})), Some(json!([])), Some(json!({"n": {}})), Some(json!("text")), Some(json!(0))] {
        explored += 1;
        let r = varlink::Reply { continues: cont, error: err.map(|e| e.into()), parameters: params.clone() };
        let text = serde_json::to_string(&r).unwrap();
        let a: Option<varlink::Reply> = serde_json::from_str(&text).ok();
        let b: Option<varlink::Reply> = serde_json::from_slice(text.as_bytes()).ok();
        let c: Option<varlink::Reply> = serde_json::to_value(&r).ok().and_then(|v| serde_json::from_value(v).ok());
        if !(a.as_ref() == Some(&r) && b.as_ref() == Some(&r) && c.as_ref() == Some(&r)) && found.is_none() {
            found = Some(json!({"reply": format!("{:?}", r), "serialized": text, "from_str_equal": a.as_ref() == Some(&r), "from_slice_equal": b.as_ref() == Some(&r), "from_value_equal": c.as_ref() == Some(&r)}));
        }
    }}}
    // every JSON object that is a valid request / reply deserializes to a value that serializes back to an equivalent object (members with value null count as absent)
    let strip_null = |v: &Value| -> Value { match v { Value::Object(o) => Value::Object(o.iter().filter(|(_, x)| !x.is_null()).map(|(k, x)| (k.clone(), x.clone())).collect()), x => x.clone() } };
    for obj in [json!({"parameters": {}}), json!({"continues": false}), json!({"continues": true, "parameters": {"a": 1}}), json!({"error": "a.b.E", "parameters": {}}), json!({"error": "a.b.E"}),
                json!({"parameters": null}), json!({}), json!({"continues": false, "parameters": {"x": {}}})] {
        explored += 1;
        let back = serde_json::from_value::<varlink::Reply>(obj.clone()).ok().and_then(|r| serde_json::to_value(&r).ok());
        let back2 = serde_json::from_str::<varlink::Reply>(&obj.to_string()).ok().and_then(|r| serde_json::to_value(&r).ok());
        if (back.as_ref().map(&strip_null) != Some(strip_null(&obj)) || back2.as_ref().map(&strip_null) != Some(strip_null(&obj))) && found.is_none() {
            found = Some(json!({"wire_reply": obj, "after_deserialize_serialize": back, "via_text": back2}));
        }
    }
    for obj in [json!({"method": "a.b.C"}), json!({"method": "a.b.C", "parameters": {}}), json!({"method": "a.b.C", "more": false}), json!({"method": "a.b.C", "oneway": false, "upgrade": false, "more": true}),
                json!({"method": "a.b.C", "oneway": true, "parameters": {"x": []}}), json!({"method": "", "parameters": null})] {
        explored += 1;
        let back = serde_json::from_value::<varlink::Request>(obj.clone()).ok().and_then(|r| serde_json::to_value(&r).ok());
        let back2 = serde_json::from_str::<varlink::Request>(&obj.to_string()).ok().and_then(|r| serde_json::to_value(&r).ok());
        if (back.as_ref().map(&strip_null) != Some(strip_null(&obj)) || back2.as_ref().map(&strip_null) != Some(strip_null(&obj))) && found.is_none() {
            found = Some(json!({"wire_request": obj, "after_deserialize_serialize": back, "via_text": back2}));
        }
    }
    // ServiceInfo / GetInterfaceDescriptionReply, including the empty interface list
    for ifs in [vec![], vec!["org.varlink.service"], vec!["org.varlink.service", "a.b"]] {
        explored += 1;
        let si = varlink::ServiceInfo { vendor: "v".into(), product: "p".into(), version: "1".into(), url: "u".into(), interfaces: ifs.iter().map(|s| (*s).into()).collect() };
        let text = serde_json::to_string(&si).unwrap();
        let a: Option<varlink::ServiceInfo> = serde_json::from_str(&text).ok();
        let c: Option<varlink::ServiceInfo> = serde_json::to_value(&si).ok().and_then(|v| serde_json::from_value(v).ok());
        if !(a.as_ref() == Some(&si) && c.as_ref() == Some(&si)) && found.is_none() {
            found = Some(json!({"service_info_interfaces": ifs, "serialized": text, "from_str_equal": a.as_ref() == Some(&si), "from_value_equal": c.as_ref() == Some(&si)}));
        }
    }
    for d in [None, Some("text".to_string())] {
        explored += 1;
        let r = varlink::GetInterfaceDescriptionReply { description: d.clone() };
        let text = serde_json::to_string(&r).unwrap();
        let a: Option<varlink::GetInterfaceDescriptionReply> = serde_json::from_str(&text).ok();
        if (a.as_ref() != Some(&r) || text.contains("description") != d.is_some()) && found.is_none() {
            found = Some(json!({"reply": format!("{:?}", r), "serialized": text}));
        }
    }
    for ob in obs { emit(ob, found.is_some(), explored, found.clone().unwrap_or(Value::Null)); }
}

// C20 (slice): the real `varlink` binary ($VX_CLI_BIN, built by tools/replay.py from the tree under test) against a scripted peer.
//   split  : `call unix:<dir with dots and slashes>/sock/org.example.Ping` reaches that socket with method org.example.Ping; without an
//            address the resolver is asked for the text before the last '.', and the call goes to the address it returned
//   status : exit status is 0 iff no reply was an error (single call, --more, error in the middle of --more)
//   print  : stdout carries exactly the parameters of every successful reply, in order
// scripted peers for the command line tool: a resolver (answers Resolve with the service's address, GetInfo with its own vendor) and a service whose
// behaviour is keyed on the method name suffix; both record (socket, "method parameters") of every request; oneway requests are not answered
fn spawn_fake_peers(sock: &std::path::Path, rsock: &std::path::Path) -> std::sync::Arc<std::sync::Mutex<Vec<(String, String)>>> {
    use std::io::{BufRead, BufReader, Write};
    use std::os::unix::net::UnixListener;
    use std::sync::{Arc, Mutex};
    let sock = sock.to_path_buf();
    let rsock = rsock.to_path_buf();
    // a second service (interfaces starting with org.other resolve to it): <service socket>2
    let sock2 = std::path::PathBuf::from(format!("{}2", sock.display()));
    let _ = std::fs::remove_file(&sock2);
    let seen: Arc<Mutex<Vec<(String, String)>>> = Arc::new(Mutex::new(Vec::new()));   // (which socket, method + parameters)
    let service_addr = format!("unix:{}", sock.display());
    let service2_addr = format!("unix:{}", sock2.display());
    for (which, path) in [("service", sock.clone()), ("service2", sock2.clone()), ("resolver", rsock.clone())] {
        let l = UnixListener::bind(&path).unwrap();
        let seen = seen.clone();
        let service_addr = service_addr.clone();
        let service2_addr = service2_addr.clone();
        std::thread::spawn(move || {
            for st in l.incoming() {
                let st = match st { Ok(s) => s, Err(_) => return };
                let seen = seen.clone();
                let service_addr = service_addr.clone();
                let service2_addr = service2_addr.clone();
                std::thread::spawn(move || {
                    let mut w = st.try_clone().unwrap();
                    let mut r = BufReader::new(st);
                    loop {
                        let mut buf = Vec::new();
                        if r.read_until(0, &mut buf).unwrap_or(0) == 0 { return; }
                        buf.pop();
                        let req: Value = match serde_json::from_slice(&buf) { Ok(v) => v, Err(_) => return };
                        let method = req["method"].as_str().unwrap_or("").to_string();
                        seen.lock().unwrap().push((which.to_string(), format!("{} {}", method, req["parameters"])));
                        if req["oneway"] == json!(true) { continue; }
                        let replies: Vec<Value> = if method == "org.varlink.resolver.Resolve" {
                            let to2 = req["parameters"]["interface"].as_str().map(|i| i.starts_with("org.other")).unwrap_or(false);
                            vec![json!({"parameters": {"address": if to2 { service2_addr.clone() } else { service_addr.clone() }}})]
                        } else if method == "org.varlink.service.GetInterfaceDescription" {
                            vec![json!({"parameters": {"description": format!("described by {}", which)}})]
                        } else if method.ends_with(".GetInfo") {
                            vec![json!({"parameters": {"vendor": which, "product": "fake", "version": "1", "url": "http://example.org", "interfaces": ["org.varlink.service"]}})]
                        } else if req["upgrade"] == json!(true) && (method.ends_with(".Up") || method.ends_with(".UpClose")) {
                            // upgraded echo protocol: answer the request, then read ONE line of the upgraded protocol (3 s) and answer `UP:<line>`; close
                            let _ = w.write_all(b"{}\0");
                            let _ = r.get_ref().set_read_timeout(Some(Duration::from_millis(3000)));
                            let mut line = Vec::new();
                            let _ = r.read_until(b'\n', &mut line);
                            seen.lock().unwrap().push((which.to_string(), format!("upgraded-saw {}", String::from_utf8_lossy(&line))));
                            let _ = w.write_all(b"UP:");
                            let _ = w.write_all(&line);
                            if method.ends_with(".Up") {
                                // keep the connection until the peer is done (up to 3 s): this script is about the hand-over, not about closing
                                let mut rest = Vec::new();
                                let _ = r.read_to_end(&mut rest);
                            }
                            let _ = w.shutdown(std::net::Shutdown::Both);
                            return;
                        } else if method.ends_with(".StreamCut") {
                            // one announced-to-continue reply, then the peer hangs up: the expected final reply never arrives
                            let mut out = serde_json::to_vec(&json!({"continues": true, "parameters": {"n": 1}})).unwrap(); out.push(0);
                            let _ = w.write_all(&out);
                            let _ = w.shutdown(std::net::Shutdown::Both);
                            return;
                        } else if method.ends_with(".StreamFail") {
                            vec![json!({"continues": true, "parameters": {"n": 1}}), json!({"error": "org.example.Err", "parameters": {"why": "x"}})]
                        } else if method.ends_with(".Stream") {
                            vec![json!({"continues": true, "parameters": {"n": 1}}), json!({"continues": true, "parameters": {"n": 2}}), json!({"parameters": {"n": 3}})]
                        } else if method.ends_with(".Big") {
                            // one reply much larger than the 8 KiB buffers on the way, then silence
                            vec![json!({"parameters": {"blob": "b".repeat(30000)}})]
                        } else if method.ends_with(".Fail") {
                            vec![json!({"error": "org.example.Err", "parameters": {"why": "x"}})]
                        } else {
                            vec![json!({"parameters": {"pong": 1}})]
                        };
                        for rep in replies {
                            let mut out = serde_json::to_vec(&rep).unwrap(); out.push(0);
                            if w.write_all(&out).is_err() { return; }
                        }
                    }
                });
            }
        });
    }
    seen
}

fn search_cli(obs: &[&str]) {
    use std::io::{BufRead, BufReader, Write};
    use std::os::unix::net::UnixListener;
    use std::sync::{Arc, Mutex};
    let mut found: std::collections::HashMap<&'static str, Value> = std::collections::HashMap::new();
    let mut explored = 0usize;
    let bin = match std::env::var("VX_CLI_BIN") { Ok(b) if std::path::Path::new(&b).exists() => b, _ => {
        for ob in obs { println!("{}", json!({"obligation": ob, "found": false, "explored": 0, "detail": Value::Null, "note": "VX_CLI_BIN not built"})); }
        return;
    } };
    let dir = std::env::temp_dir().join(format!("vx-c20-{}", std::process::id())).join("a.b").join("c.d");
    let _ = std::fs::create_dir_all(&dir);
    // the service address extends the resolver address (a resolved address that merely starts like the resolver's is still another socket)
    let sock = dir.join("resolver.service");
    let rsock = dir.join("resolver");
    let _ = std::fs::remove_file(&sock); let _ = std::fs::remove_file(&rsock);
    let seen = spawn_fake_peers(&sock, &rsock);
    // (class, args after `varlink --color off --resolver <r>`, expected exit-ok, expected stdout values, expected (socket, method-prefix) seen)
    let direct = |m: &str| format!("unix:{}/{}", sock.display(), m);
    let cases: Vec<(&'static str, Vec<String>, bool, Vec<Value>, Vec<(&'static str, String)>)> = vec![
        ("split", vec!["call".into(), direct("org.example.Ping")], true, vec![json!({"pong": 1})], vec![("service", "org.example.Ping ".into())]),
        ("split", vec!["call".into(), "org.example.more.Ping".into()], true, vec![json!({"pong": 1})],
            vec![("resolver", "org.varlink.resolver.Resolve {\"interface\":\"org.example.more\"}".into()), ("service", "org.example.more.Ping ".into())]),
        ("print", vec!["call".into(), direct("org.example.Ping"), "{\"a\":1}".into()], true, vec![json!({"pong": 1})], vec![("service", "org.example.Ping {\"a\":1}".into())]),
        ("status", vec!["call".into(), direct("org.example.Fail")], false, vec![], vec![("service", "org.example.Fail ".into())]),
        ("print", vec!["call".into(), "-m".into(), direct("org.example.Stream")], true, vec![json!({"n": 1}), json!({"n": 2}), json!({"n": 3})], vec![("service", "org.example.Stream ".into())]),
        ("status", vec!["call".into(), "-m".into(), direct("org.example.StreamFail")], false, vec![json!({"n": 1})], vec![("service", "org.example.StreamFail ".into())]),
        ("status", vec!["call".into(), "-m".into(), direct("org.example.Fail")], false, vec![], vec![("service", "org.example.Fail ".into())]),
        ("status", vec!["call".into(), "-m".into(), direct("org.example.StreamCut")], false, vec![json!({"n": 1})], vec![("service", "org.example.StreamCut ".into())]),
        ("split", vec!["call".into(), "-m".into(), "org.example.more.Stream".into()], true, vec![json!({"n": 1}), json!({"n": 2}), json!({"n": 3})],
            vec![("resolver", "org.varlink.resolver.Resolve {\"interface\":\"org.example.more\"}".into()), ("service", "org.example.more.Stream ".into())]),
    ];
    // "every supported address form works": the same call over tcp, IPv4 literal and bracketed IPv6 literal (the last slash still separates address and method)
    let mut cases = cases;
    for (bind_to, host, tag) in [("127.0.0.1:0", "127.0.0.1", "tcp4"), ("[::1]:0", "[::1]", "tcp6")] {
        let l = match std::net::TcpListener::bind(bind_to) { Ok(l) => l, Err(_) => continue };
        let port = l.local_addr().map(|a| a.port()).unwrap_or(0);
        let seen2 = seen.clone();
        std::thread::spawn(move || {
            for st in l.incoming() {
                let st = match st { Ok(s) => s, Err(_) => return };
                let mut w = match st.try_clone() { Ok(w) => w, Err(_) => continue };
                let mut r = BufReader::new(st);
                loop {
                    let mut buf = Vec::new();
                    if r.read_until(0, &mut buf).unwrap_or(0) == 0 { break; }
                    buf.pop();
                    let req: Value = match serde_json::from_slice(&buf) { Ok(v) => v, Err(_) => break };
                    seen2.lock().unwrap().push((tag.to_string(), format!("{} {}", req["method"].as_str().unwrap_or(""), req["parameters"])));
                    let mut out = serde_json::to_vec(&json!({"parameters": {"pong": 1}})).unwrap(); out.push(0);
                    if w.write_all(&out).is_err() { break; }
                }
            }
        });
        cases.push(("split", vec!["call".into(), format!("tcp:{}:{}/org.example.Ping", host, port)], true, vec![json!({"pong": 1})], vec![(tag, "org.example.Ping ".into())]));
    }
    for (class, args, want_ok, want_out, want_seen) in cases {
        explored += 1;
        seen.lock().unwrap().clear();
        let mut cmd = std::process::Command::new(&bin);
        cmd.arg("--color").arg("off").arg("--resolver").arg(format!("unix:{}", rsock.display()));
        for a in &args { cmd.arg(a); }
        let mut child = match cmd.stdin(std::process::Stdio::null()).stdout(std::process::Stdio::piped()).stderr(std::process::Stdio::piped()).spawn() { Ok(c) => c, Err(_) => continue };
        let t0 = std::time::Instant::now();
        let mut timed_out = false;
        loop {
            match child.try_wait() { Ok(Some(_)) => break, _ => {} }
            if t0.elapsed() > Duration::from_secs(10) { timed_out = true; let _ = child.kill(); break; }
            std::thread::sleep(Duration::from_millis(5));
        }
        let out = child.wait_with_output().unwrap();
        let stdout = String::from_utf8_lossy(&out.stdout).to_string();
        let stderr = String::from_utf8_lossy(&out.stderr).to_string();
        let vals: Vec<Value> = serde_json::Deserializer::from_str(&stdout).into_iter::<Value>().filter_map(|v| v.ok()).collect();
        let got_seen = seen.lock().unwrap().clone();
        let detail = json!({"argv": args, "exit_ok": out.status.success(), "stdout": stdout, "stderr": stderr, "peer_saw": got_seen.iter().map(|(a, b)| format!("{}: {}", a, b)).collect::<Vec<_>>(),
            "expected": {"exit_ok": want_ok, "stdout_values": want_out, "peer_sees": want_seen.iter().map(|(a, b)| format!("{}: {}", a, b)).collect::<Vec<_>>()}, "timed_out": timed_out});
        if stderr.contains("panicked") { found.entry("panic").or_insert(detail.clone()); }
        let seen_ok = want_seen.len() == got_seen.len() && want_seen.iter().zip(got_seen.iter()).all(|((ws, wm), (gs, gm))| ws == gs && gm.starts_with(wm.as_str()));
        if !seen_ok { found.entry("split").or_insert(detail.clone()); }
        if out.status.success() != want_ok || timed_out { found.entry("status").or_insert(detail.clone()); }
        if seen_ok && vals != want_out { found.entry("print").or_insert(detail.clone()); }
        let _ = class;
    }
    let _ = std::fs::remove_dir_all(std::env::temp_dir().join(format!("vx-c20-{}", std::process::id())));
    for ob in obs {
        let class = match *ob { "C20.split" => "split", "C20.status" => "status", "C20.print" => "print", "C20.no-panic" => "panic", _ => "none" };
        // a reply that is not printed is also a status defect when the exit status says success
        let f = found.get(class);
        emit(ob, f.is_some(), explored, f.cloned().unwrap_or(Value::Null));
    }
}

// C19 (slice): the real `varlink-certification` server ($VX_CERT_BIN, built by tools/replay.py from the tree under test), raw frames on a unix socket.
//   a reference client walks Start, Test01..Test11, End feeding each reply into the next call (the canonical sequence) and records the parameters;
//   then for every position E a fresh client is walked to E and sent every OTHER step with well-typed (recorded) parameters: each must be answered
//   with ClientIdError, after which step E itself must still succeed; an unknown client id gets ClientIdError for every step.
fn search_cert(obs: &[&str]) {
    use std::os::unix::net::UnixStream;
    let mut found: std::collections::HashMap<&'static str, Value> = std::collections::HashMap::new();
    let mut explored = 0usize;
    let bin = match std::env::var("VX_CERT_BIN") { Ok(b) if std::path::Path::new(&b).exists() => b, _ => {
        for ob in obs { println!("{}", json!({"obligation": ob, "found": false, "explored": 0, "detail": Value::Null, "note": "VX_CERT_BIN not built"})); }
        return;
    } };
    let dir = std::env::temp_dir().join(format!("vx-c19-{}", std::process::id()));
    let _ = std::fs::create_dir_all(&dir);
    let sock = dir.join("cert");
    let mut child = match std::process::Command::new(&bin).arg(format!("--varlink=unix:{}", sock.display())).arg("--timeout").arg("60")
        .stdin(std::process::Stdio::null()).stdout(std::process::Stdio::null()).stderr(std::process::Stdio::null()).spawn() { Ok(c) => c, Err(_) => return };
    for _ in 0..200 { if sock.exists() { break; } std::thread::sleep(Duration::from_millis(20)); }
    let names: Vec<String> = (1..=11).map(|k| format!("Test{:02}", k)).chain(std::iter::once("End".to_string())).collect();
    // one request on a fresh connection; returns the replies read (all of them for a `more` call that is answered with continues)
    let call = |method: &str, params: Value, more: bool| -> Vec<Value> {
        let mut out = Vec::new();
        let st = match UnixStream::connect(&sock) { Ok(s) => s, Err(_) => return out };
        let _ = st.set_read_timeout(Some(Duration::from_millis(8000)));
        let mut w = match st.try_clone() { Ok(w) => w, Err(_) => return out };
        let mut req = json!({"method": format!("org.varlink.certification.{}", method), "parameters": params});
        if more { req["more"] = json!(true); }
        // `Name!flag+flag`: extra call-mode flags
        let mut oneway = false;
        if let Some((name, flags)) = method.split_once('!') {
            req["method"] = json!(format!("org.varlink.certification.{}", name));
            for f in flags.split('+') { req[f] = json!(true); if f == "oneway" { oneway = true; } }
        }
        let mut b = serde_json::to_vec(&req).unwrap(); b.push(0);
        if w.write_all(&b).is_err() { return out; }
        let mut r = BufReader::new(st);
        if oneway {
            // no reply is expected; a GetInfo on the same connection returns only after the oneway call was processed
            let mut g = serde_json::to_vec(&json!({"method": "org.varlink.service.GetInfo"})).unwrap(); g.push(0);
            let _ = w.write_all(&g);
            let mut buf = Vec::new();
            let _ = r.read_until(0, &mut buf);
            buf.pop();
            match serde_json::from_slice::<Value>(&buf) { Ok(v) if v["parameters"]["vendor"].is_string() => out.push(json!({"parameters": {}})), Ok(v) => out.push(v), Err(_) => {} }
            return out;
        }
        loop {
            let mut buf = Vec::new();
            match r.read_until(0, &mut buf) { Ok(n) if n > 0 => {}, _ => break }
            buf.pop();
            let v: Value = match serde_json::from_slice(&buf) { Ok(v) => v, Err(_) => break };
            let cont = v["continues"] == json!(true);
            out.push(v);
            if !cont { break; }
        }
        out
    };
    let with_id = |args: &Value, id: &str| -> Value { let mut a = args.clone(); if !a.is_object() { a = json!({}); } a["client_id"] = json!(id); a };
    let is_cid_err = |rs: &Vec<Value>| rs.len() == 1 && rs[0]["error"] == json!("org.varlink.certification.ClientIdError");
    let is_err = |rs: &Vec<Value>| rs.is_empty() || rs.iter().any(|r| !r["error"].is_null());
    // reference walk: args[k] = parameters (without client_id) of step k
    let mut args: Vec<Value> = Vec::new();
    let mut canonical_ok = true;
    let start = call("Start", json!({}), false);
    let rid = start.get(0).and_then(|r| r["parameters"]["client_id"].as_str()).unwrap_or("").to_string();
    let mut prev: Value = json!({});
    let mut trace: Vec<Value> = vec![json!({"Start": start})];
    for (k, name) in names.iter().enumerate() {
        explored += 1;
        let a = if k == 10 { prev.clone() } else { prev.clone() };
        args.push(a.clone());
        let more = k == 9;
        let rs = if k == 10 { call(&format!("{}!oneway", name), with_id(&a, &rid), false) } else { call(name, with_id(&a, &rid), more) };
        trace.push(json!({name.as_str(): rs.clone()}));
        if is_err(&rs) { canonical_ok = false; break; }
        if k == 9 { prev = json!({"last_more_replies": rs.iter().map(|r| r["parameters"]["string"].clone()).collect::<Vec<_>>()}); }
        else if k == 10 { prev = json!({}); }
        else { prev = rs[0]["parameters"].clone(); }
    }
    if rid.is_empty() || !canonical_ok {
        found.entry("step").or_insert(json!({"what": "the canonical sequence (each reply fed into the next call) did not succeed", "trace": trace}));
    }
    if args.len() == names.len() {
        // unknown client id
        for (k, name) in names.iter().enumerate() {
            explored += 1;
            let rs = call(name, with_id(&args[k], "0123456789abcdef-unknown"), false);
            if !is_cid_err(&rs) { found.entry("gate").or_insert(json!({"what": "unknown client id", "step": name, "replies": rs, "expected": "ClientIdError"})); }
        }
        // look-alike ids: a fresh client at Test01, its step called under strings that are NOT the id that was issued
        {
            let st = call("Start", json!({}), false);
            let id = st.get(0).and_then(|r| r["parameters"]["client_id"].as_str()).unwrap_or("").to_string();
            if !id.is_empty() {
                for alias in [format!("0{}", id), format!("+{}", id), id.to_uppercase(), format!("{} ", id), format!("0x{}", id), id[..id.len() - 1].to_string()] {
                    if alias == id { continue; }
                    explored += 1;
                    let rs = call(&names[0], with_id(&args[0], &alias), false);
                    if !is_cid_err(&rs) { found.entry("gate").or_insert(json!({"what": "a client id that was never issued (look-alike of an issued one)", "issued": id, "used": alias, "step": names[0], "replies": rs, "expected": "ClientIdError"})); }
                }
            }
        }
        // deviating call mode / deviating value at the RIGHT position: a fresh client per probe (the gate advances the step before the request is checked)
        {
            let walk_to = |e: usize| -> Option<String> {
                let st = call("Start", json!({}), false);
                let id = st.get(0).and_then(|r| r["parameters"]["client_id"].as_str()).unwrap_or("").to_string();
                if id.is_empty() { return None; }
                for k in 0..e {
                    let rs = if k == 10 { call(&format!("{}!oneway", names[k]), with_id(&args[k], &id), false) } else { call(&names[k], with_id(&args[k], &id), k == 9) };
                    if is_err(&rs) { return None; }
                }
                Some(id)
            };
            let success = |rs: &Vec<Value>| !rs.is_empty() && rs.iter().all(|r| r["error"].is_null());
            for e in 0..names.len() {
                if e == 10 { continue; }   // Test11 is oneway: no reply either way
                let modes: Vec<(&str, bool)> = if e == 9 { vec![("", false), ("!upgrade", true), ("!upgrade", false)] } else { vec![("", true), ("!upgrade", false), ("!upgrade", true)] };
                for (suffix, more) in modes {
                    explored += 1;
                    if let Some(id) = walk_to(e) {
                        let rs = call(&format!("{}{}", names[e], suffix), with_id(&args[e], &id), more);
                        if success(&rs) {
                            found.entry("mode").or_insert(json!({"what": "a step called in a deviating call mode got its success reply", "step": names[e], "flags": format!("more={} {}", more, suffix), "replies": rs, "expected": "an error reply"}));
                        }
                    }
                }
                // a deviating value: the first parameter that is not the client id is changed
                if let Some(obj) = args[e].as_object() {
                    if let Some((k0, v0)) = obj.iter().next() {
                        let dev = match v0 { Value::Bool(b) => json!(!b), Value::Number(n) if n.is_i64() => json!(n.as_i64().unwrap() + 1), Value::Number(n) => json!(n.as_f64().unwrap() + 0.5),
                            Value::String(x) => json!(format!("{}x", x)), Value::Array(a) => { let mut a = a.clone(); a.push(json!("extra")); json!(a) },
                            Value::Object(o) => { let mut o = o.clone(); let kk = o.keys().next().cloned(); if let Some(kk) = kk { o.remove(&kk); } json!(o) }, Value::Null => json!(1) };
                        explored += 1;
                        if let Some(id) = walk_to(e) {
                            let mut a = with_id(&args[e], &id); a[k0.as_str()] = dev.clone();
                            let rs = call(&names[e], a, e == 9);
                            if success(&rs) {
                                found.entry("value").or_insert(json!({"what": "a step called with a deviating value got its success reply", "step": names[e], "parameter": k0, "sent": dev, "replies": rs, "expected": "an error reply"}));
                            }
                        }
                    }
                }
            }
        }
        // every position E, every other step K
        for e in 0..names.len() {
            let st = call("Start", json!({}), false);
            let id = st.get(0).and_then(|r| r["parameters"]["client_id"].as_str()).unwrap_or("").to_string();
            let mut ok = !id.is_empty();
            for k in 0..e { if !ok { break; } let rs = if k == 10 { call(&format!("{}!oneway", names[k]), with_id(&args[k], &id), false) } else { call(&names[k], with_id(&args[k], &id), k == 9) }; if is_err(&rs) { ok = false; } }
            if !ok { found.entry("step").or_insert(json!({"what": "a fresh client could not be walked to position", "position": names[e]})); continue; }
            for k in 0..names.len() {
                if k == e { continue; }
                explored += 1;
                let rs = call(&names[k], with_id(&args[k], &id), false);
                if !is_cid_err(&rs) {
                    found.entry("gate").or_insert(json!({"what": "step called out of order", "client_is_at": names[e], "called": names[k], "replies": rs, "expected": "ClientIdError"}));
                }
            }
            explored += 1;
            let rs = if e == 10 { call(&format!("{}!oneway", names[e]), with_id(&args[e], &id), false) } else { call(&names[e], with_id(&args[e], &id), e == 9) };
            if is_err(&rs) {
                found.entry("step").or_insert(json!({"what": "after rejected out-of-order calls the step the client is at no longer succeeds", "position": names[e], "replies": rs}));
            }
        }
    }
    // "the canonical sequence succeeds for any number of clients running it concurrently, each under its own client id": 24 clients released together call Start
    // (6 rounds): every client id handed out is different, and each client's Test01 under its own id succeeds
    for round in 0..6 {
        explored += 1;
        let barrier = Arc::new(std::sync::Barrier::new(24));
        let sockp = sock.clone();
        let hs: Vec<_> = (0..24).map(|_| { let b = barrier.clone(); let sp = sockp.clone(); std::thread::spawn(move || -> Option<(String, bool)> {
            let st = UnixStream::connect(&sp).ok()?;
            let _ = st.set_read_timeout(Some(Duration::from_millis(8000)));
            let mut w = st.try_clone().ok()?;
            let mut r = BufReader::new(st);
            b.wait();
            w.write_all(b"{\"method\":\"org.varlink.certification.Start\"}\0").ok()?;
            let mut buf = Vec::new(); r.read_until(0, &mut buf).ok()?; buf.pop();
            let id = serde_json::from_slice::<Value>(&buf).ok()?["parameters"]["client_id"].as_str()?.to_string();
            b.wait();
            let mut q = serde_json::to_vec(&json!({"method": "org.varlink.certification.Test01", "parameters": {"client_id": id}})).ok()?; q.push(0);
            w.write_all(&q).ok()?;
            let mut buf = Vec::new(); r.read_until(0, &mut buf).ok()?; buf.pop();
            let ok = serde_json::from_slice::<Value>(&buf).ok().map(|v| v.get("error").is_none()).unwrap_or(false);
            Some((id, ok))
        }) }).collect();
        let res: Vec<Option<(String, bool)>> = hs.into_iter().map(|h| h.join().ok().flatten()).collect();
        let ids: Vec<String> = res.iter().filter_map(|x| x.as_ref().map(|p| p.0.clone())).collect();
        let mut uniq = ids.clone(); uniq.sort(); uniq.dedup();
        let failed: Vec<&String> = res.iter().filter_map(|x| x.as_ref().and_then(|p| if p.1 { None } else { Some(&p.0) })).collect();
        if uniq.len() != ids.len() || !failed.is_empty() {
            found.entry("step").or_insert(json!({"what": "24 clients calling Start at the same time", "round": round, "client_ids_handed_out": ids.len(), "distinct": uniq.len(),
                "clients_whose_Test01_under_their_own_id_failed": failed.len(), "expected": "every client gets its own id and its canonical Test01 succeeds"}));
            break;
        }
    }
    let _ = child.kill(); let _ = child.wait();
    let _ = std::fs::remove_dir_all(&dir);
    for ob in obs {
        let class = match *ob { "C19.gate" => "gate", "C19.step" | "C19.own-id" => "step", "C19.mode" => "mode", "C19.value" => "value", _ => "none" };
        // any failing history is a counterexample to the property; the obligation's own class is preferred
        let f = found.get(class).or_else(|| found.get("gate")).or_else(|| found.get("step")).or_else(|| found.get("mode")).or_else(|| found.get("value"));
        emit(ob, f.is_some(), explored, f.cloned().unwrap_or(Value::Null));
    }
}

// C18 (slice): the real `varlink bridge` ($VX_CLI_BIN) on pipes, scripted resolver and service behind it.  A client writes requests to the bridge's stdin and
// reads its stdout: the reply sequence must be the one the service sends when talked to directly (GetInfo: the resolver's), the service must see the
// requests unchanged, a oneway request must not stall the bridge, and closing stdin ends the bridge with exit status 0.
fn search_bridge(obs: &[&str]) {
    use std::io::{BufRead, BufReader, Write};
    let mut found: std::collections::HashMap<&'static str, Value> = std::collections::HashMap::new();
    let mut explored = 0usize;
    let bin = match std::env::var("VX_CLI_BIN") { Ok(b) if std::path::Path::new(&b).exists() => b, _ => {
        for ob in obs { println!("{}", json!({"obligation": ob, "found": false, "explored": 0, "detail": Value::Null, "note": "VX_CLI_BIN not built"})); }
        return;
    } };
    let dir = std::env::temp_dir().join(format!("vx-c18-{}", std::process::id())).join("x.y");
    let _ = std::fs::create_dir_all(&dir);
    let sock = dir.join("resolver.service");
    let rsock = dir.join("resolver");
    let _ = std::fs::remove_file(&sock); let _ = std::fs::remove_file(&rsock);
    let seen = spawn_fake_peers(&sock, &rsock);
    let pong = json!({"parameters": {"pong": 1}});
    let stream3 = vec![json!({"continues": true, "parameters": {"n": 1}}), json!({"continues": true, "parameters": {"n": 2}}), json!({"parameters": {"n": 3}})];
    let fail = json!({"error": "org.example.Err", "parameters": {"why": "x"}});
    // scripts: (request, expected replies through the bridge)
    let scripts: Vec<Vec<(Value, Vec<Value>)>> = vec![
        vec![(json!({"method": "org.example.Ping", "parameters": {"a": 1}}), vec![pong.clone()])],
        vec![(json!({"method": "org.example.Ping"}), vec![pong.clone()]), (json!({"method": "org.example.Ping", "parameters": {"b": [1, 2, {"c": "\u{e9}\u{0}x"}]}}), vec![pong.clone()])],
        vec![(json!({"method": "org.example.Stream", "more": true}), stream3.clone()), (json!({"method": "org.example.Ping"}), vec![pong.clone()])],
        vec![(json!({"method": "org.example.Note", "oneway": true, "parameters": {"k": 1}}), vec![]), (json!({"method": "org.example.Ping"}), vec![pong.clone()])],
        vec![(json!({"method": "org.example.Fail"}), vec![fail.clone()]), (json!({"method": "org.example.Ping"}), vec![pong.clone()])],
        vec![(json!({"method": "org.example.StreamFail", "more": true}), vec![json!({"continues": true, "parameters": {"n": 1}}), fail.clone()]), (json!({"method": "org.other.deep.name.Ping"}), vec![pong.clone()])],
        vec![(json!({"method": "org.varlink.service.GetInfo"}), vec![json!({"parameters": {"vendor": "resolver", "product": "fake", "version": "1", "url": "http://example.org", "interfaces": ["org.varlink.service"]}})])],
        // a reply of 30 kB arriving in one piece, after which the service stays silent until the next request
        vec![(json!({"method": "org.example.Big"}), vec![json!({"parameters": {"blob": "b".repeat(30000)}})]), (json!({"method": "org.example.Ping"}), vec![pong.clone()])],
        // the same interface before and after a service-info query (the address cache must not go stale)
        vec![(json!({"method": "org.example.Ping"}), vec![pong.clone()]),
             (json!({"method": "org.varlink.service.GetInfo"}), vec![json!({"parameters": {"vendor": "resolver", "product": "fake", "version": "1", "url": "http://example.org", "interfaces": ["org.varlink.service"]}})]),
             (json!({"method": "org.example.Ping"}), vec![pong.clone()])],
        // descriptions of two interfaces that live in two services, back to back, then a call
        vec![(json!({"method": "org.varlink.service.GetInterfaceDescription", "parameters": {"interface": "org.example"}}), vec![json!({"parameters": {"description": "described by service"}})]),
             (json!({"method": "org.varlink.service.GetInterfaceDescription", "parameters": {"interface": "org.other.thing"}}), vec![json!({"parameters": {"description": "described by service2"}})]),
             (json!({"method": "org.other.thing.Ping"}), vec![pong.clone()]),
             (json!({"method": "org.varlink.service.GetInterfaceDescription", "parameters": {"interface": "org.example"}}), vec![json!({"parameters": {"description": "described by service"}})])],
    ];
    for script in scripts {
        explored += 1;
        seen.lock().unwrap().clear();
        let mut child = match std::process::Command::new(&bin).arg("--resolver").arg(format!("unix:{}", rsock.display())).arg("bridge")
            .stdin(std::process::Stdio::piped()).stdout(std::process::Stdio::piped()).stderr(std::process::Stdio::piped()).spawn() { Ok(c) => c, Err(_) => continue };
        let mut stdin = child.stdin.take().unwrap();
        let stdout = child.stdout.take().unwrap();
        let (tx, rx) = std::sync::mpsc::channel::<Value>();
        std::thread::spawn(move || {
            let mut r = BufReader::new(stdout);
            loop {
                let mut buf = Vec::new();
                match r.read_until(0, &mut buf) { Ok(n) if n > 0 => {}, _ => break }
                if buf.last() == Some(&0) { buf.pop(); }
                let v: Value = serde_json::from_slice(&buf).unwrap_or(json!({"unparseable": String::from_utf8_lossy(&buf).to_string()}));
                if tx.send(v).is_err() { break; }
            }
        });
        let mut got_all: Vec<Vec<Value>> = Vec::new();
        let mut stalled = false;
        for (req, want) in &script {
            let mut b = serde_json::to_vec(req).unwrap(); b.push(0);
            if stdin.write_all(&b).is_err() || stdin.flush().is_err() { break; }
            let mut got = Vec::new();
            for _ in 0..want.len() {
                match rx.recv_timeout(Duration::from_millis(8000)) { Ok(v) => got.push(v), Err(_) => { stalled = true; break; } }
            }
            got_all.push(got);
            if stalled { break; }
        }
        // nothing unexpected may follow
        let extra: Vec<Value> = std::iter::from_fn(|| rx.recv_timeout(Duration::from_millis(150)).ok()).collect();
        drop(stdin);
        let t0 = std::time::Instant::now();
        let mut exited: Option<bool> = None;
        while t0.elapsed() < Duration::from_secs(5) { if let Ok(Some(st)) = child.try_wait() { exited = Some(st.success()); break; } std::thread::sleep(Duration::from_millis(10)); }
        if exited.is_none() { let _ = child.kill(); }
        let _ = child.wait();
        let peer_saw = seen.lock().unwrap().clone();
        let want_all: Vec<Vec<Value>> = script.iter().map(|(_, w)| w.clone()).collect();
        let detail = json!({"requests": script.iter().map(|(r, _)| r.clone()).collect::<Vec<_>>(), "replies_through_bridge": got_all, "expected": want_all, "unexpected_extra_frames": extra,
            "peer_saw": peer_saw.iter().map(|(a, b)| format!("{}: {}", a, b)).collect::<Vec<_>>(), "bridge_exit_ok_after_stdin_closed": exited, "stalled": stalled});
        if got_all != want_all || !extra.is_empty() { found.entry("relay").or_insert(detail.clone()); }
        if stalled && script.iter().any(|(r, _)| r["oneway"] == json!(true)) { found.entry("oneway").or_insert(detail.clone()); }
        // what the service saw: every request that is not GetInfo, method and parameters unchanged, in order
        let want_seen: Vec<String> = script.iter().filter(|(r, _)| r["method"] != json!("org.varlink.service.GetInfo")).map(|(r, _)| format!("{} {}", r["method"].as_str().unwrap(), r["parameters"])).collect();
        let got_seen: Vec<String> = peer_saw.iter().filter(|(w, _)| w == "service" || w == "service2").map(|(_, m)| m.clone()).collect();
        // (the bridge opens one connection per request and does not wait after a oneway request, so the ORDER in which a service observes requests that
        //  arrive on different connections is not determined: compared as multisets)
        let (mut gs, mut ws) = (got_seen.clone(), want_seen.clone());
        gs.sort(); ws.sort();
        if gs != ws { found.entry("request").or_insert(detail.clone()); }
        if script.iter().any(|(r, _)| r["method"] == json!("org.varlink.service.GetInfo")) && !peer_saw.iter().any(|(w, m)| w == "resolver" && m.starts_with("org.varlink.resolver.GetInfo")) {
            found.entry("getinfo").or_insert(detail.clone());
        }
        if exited != Some(true) { found.entry("exit").or_insert(detail.clone()); }
    }
    // direct-connection mode: `varlink bridge --connect <address of the service>`: two requests, then the client closes its side
    {
        explored += 1;
    // upgrade through the resolver-mode bridge: the upgrade request and the first line of the upgraded protocol in ONE write; the client must get exactly what the
    // service sends when talked to directly: `{}` NUL `UP:hello\n` (the line reaches the service, it is not echoed back to the client)
    for (one_write, method, class) in [(true, "org.example.Up", "upgrade-forward"), (false, "org.example.Up", "upgrade-forward"),
                                       (true, "org.example.UpClose", "close-drain"), (true, "org.example.UpClose", "close-drain"), (true, "org.example.UpClose", "close-drain")] {
        explored += 1;
        seen.lock().unwrap().clear();
        let mut child = match std::process::Command::new(&bin).arg("--resolver").arg(format!("unix:{}", rsock.display())).arg("bridge")
            .stdin(std::process::Stdio::piped()).stdout(std::process::Stdio::piped()).stderr(std::process::Stdio::null()).spawn() { Ok(c) => c, Err(_) => continue };
        let mut stdin = child.stdin.take().unwrap();
        let mut stdout = child.stdout.take().unwrap();
        let reqb = format!("{{\"method\":\"{}\",\"upgrade\":true}}\0", method).into_bytes();
        if one_write { let mut m = reqb.clone(); m.extend_from_slice(b"hello\n"); let _ = stdin.write_all(&m); let _ = stdin.flush(); }
        else { let _ = stdin.write_all(&reqb); let _ = stdin.flush(); std::thread::sleep(Duration::from_millis(500)); let _ = stdin.write_all(b"hello\n"); let _ = stdin.flush(); }
        let (tx, rx) = std::sync::mpsc::channel::<Vec<u8>>();
        std::thread::spawn(move || { let mut all = Vec::new(); let mut b = [0u8; 256]; loop { match stdout.read(&mut b) { Ok(0) | Err(_) => break, Ok(n) => { all.extend_from_slice(&b[..n]); let _ = tx.send(all.clone()); } } } });
        let want = b"{}\0UP:hello\n".to_vec();
        let mut got = Vec::new();
        let t0 = std::time::Instant::now();
        while t0.elapsed() < Duration::from_secs(6) && got.len() < want.len() {
            if let Ok(v) = rx.recv_timeout(Duration::from_millis(200)) { got = v; }
        }
        drop(stdin);
        let _ = child.kill(); let _ = child.wait();
        if got != want {
            found.entry(class).or_insert(json!({"service": if class == "close-drain" { "answers `UP:<line>` and closes the connection at once" } else { "answers `UP:<line>` and waits for the peer to close" }, "client_sent": if one_write { "<upgrade request>\\0hello\\n in one write" } else { "<upgrade request>\\0, 0.5 s later hello\\n" },
                "client_received": String::from_utf8_lossy(&got), "expected": "{}\\0UP:hello\\n", "peer_saw": seen.lock().unwrap().iter().map(|(a, b)| format!("{}: {}", a, b)).collect::<Vec<_>>()}));
        }
    }

        seen.lock().unwrap().clear();
        if let Ok(mut child) = std::process::Command::new(&bin).arg("bridge").arg("--connect").arg(format!("unix:{}", sock.display()))
            .stdin(std::process::Stdio::piped()).stdout(std::process::Stdio::piped()).stderr(std::process::Stdio::piped()).spawn() {
            let mut stdin = child.stdin.take().unwrap();
            let stdout = child.stdout.take().unwrap();
            let (tx, rx) = std::sync::mpsc::channel::<Value>();
            std::thread::spawn(move || {
                let mut r = BufReader::new(stdout);
                loop {
                    let mut buf = Vec::new();
                    match r.read_until(0, &mut buf) { Ok(n) if n > 0 => {}, _ => break }
                    if buf.last() == Some(&0) { buf.pop(); }
                    if let Ok(v) = serde_json::from_slice::<Value>(&buf) { if tx.send(v).is_err() { break; } }
                }
            });
            let mut got = Vec::new();
            for req in [json!({"method": "org.example.Ping"}), json!({"method": "org.example.Ping", "parameters": {"n": 2}})] {
                let mut b = serde_json::to_vec(&req).unwrap(); b.push(0);
                if stdin.write_all(&b).is_err() || stdin.flush().is_err() { break; }
                match rx.recv_timeout(Duration::from_millis(8000)) { Ok(v) => got.push(v), Err(_) => break }
            }
            drop(stdin);
            let t0 = std::time::Instant::now();
            let mut exited: Option<bool> = None;
            while t0.elapsed() < Duration::from_secs(5) { if let Ok(Some(st)) = child.try_wait() { exited = Some(st.success()); break; } std::thread::sleep(Duration::from_millis(10)); }
            if exited.is_none() { let _ = child.kill(); }
            let out = child.wait_with_output().ok();
            let stderr = out.map(|o| String::from_utf8_lossy(&o.stderr).to_string()).unwrap_or_default();
            if got != vec![pong.clone(), pong.clone()] || exited != Some(true) || stderr.contains("panicked") {
                found.entry("connect").or_insert(json!({"invocation": "varlink bridge --connect unix:<service>", "replies": got, "expected": [pong.clone(), pong.clone()],
                    "exit_ok_after_stdin_closed": exited, "stderr": stderr.chars().take(500).collect::<String>()}));
            }
        }
    }
    let _ = std::fs::remove_dir_all(std::env::temp_dir().join(format!("vx-c18-{}", std::process::id())));
    for ob in obs {
        if *ob == "C18.no-panic" || *ob == "C18.connect" {
            let f = found.get("connect");
            emit(ob, f.is_some(), explored, f.cloned().unwrap_or(Value::Null));
            continue;
        }
        let class = match *ob { "C18.relay" | "C18.copy" => "relay", "C18.request" => "request", "C18.getinfo" => "getinfo", "C18.oneway" => "oneway", "C18.upgrade-forward" | "C18.flush" => "upgrade-forward", "C18.close-drain" => "close-drain", _ => "none" };
        let f = found.get(class).or_else(|| found.get("relay")).or_else(|| found.get("request")).or_else(|| found.get("getinfo")).or_else(|| found.get("oneway")).or_else(|| found.get("exit"));
        emit(ob, f.is_some(), explored, f.cloned().unwrap_or(Value::Null));
    }
}

// C08 (slice): the generated dispatch and client stubs inside the real `varlink-certification` binary ($VX_CERT_BIN): the binary's own client mode (generated
// client stubs) must complete the sequence against its server mode (generated dispatch); raw requests with missing / ill-typed parameters must be answered
// with InvalidParameter, an unknown method of the interface with MethodNotFound.
fn search_gen(obs: &[&str]) {
    use std::os::unix::net::UnixStream;
    let mut found: std::collections::HashMap<&'static str, Value> = std::collections::HashMap::new();
    let mut explored = 0usize;
    let bin = match std::env::var("VX_CERT_BIN") { Ok(b) if std::path::Path::new(&b).exists() => b, _ => {
        for ob in obs { println!("{}", json!({"obligation": ob, "found": false, "explored": 0, "detail": Value::Null, "note": "VX_CERT_BIN not built"})); }
        return;
    } };
    let dir = std::env::temp_dir().join(format!("vx-c08-{}", std::process::id()));
    let _ = std::fs::create_dir_all(&dir);
    let sock = dir.join("cert");
    let mut child = match std::process::Command::new(&bin).arg(format!("--varlink=unix:{}", sock.display())).arg("--timeout").arg("60")
        .stdin(std::process::Stdio::null()).stdout(std::process::Stdio::null()).stderr(std::process::Stdio::null()).spawn() { Ok(c) => c, Err(_) => return };
    for _ in 0..200 { if sock.exists() { break; } std::thread::sleep(Duration::from_millis(20)); }
    let raw = |req: Value| -> Vec<Value> {
        let mut out = Vec::new();
        let st = match UnixStream::connect(&sock) { Ok(s) => s, Err(_) => return out };
        let _ = st.set_read_timeout(Some(Duration::from_millis(8000)));
        let mut w = match st.try_clone() { Ok(w) => w, Err(_) => return out };
        let mut b = serde_json::to_vec(&req).unwrap(); b.push(0);
        if w.write_all(&b).is_err() { return out; }
        let mut r = BufReader::new(st);
        let mut buf = Vec::new();
        if let Ok(n) = r.read_until(0, &mut buf) { if n > 0 { buf.pop(); if let Ok(v) = serde_json::from_slice::<Value>(&buf) { out.push(v); } } }
        out
    };
    // client mode of the same binary (generated client stubs) against the server
    explored += 1;
    let c = std::process::Command::new(&bin).arg(format!("--varlink=unix:{}", sock.display())).arg("--client")
        .stdin(std::process::Stdio::null()).stdout(std::process::Stdio::null()).stderr(std::process::Stdio::piped()).output();
    match c {
        Ok(o) if o.status.success() => {}
        Ok(o) => { found.entry("client").or_insert(json!({"what": "the binary's client mode (generated client stubs) did not complete the sequence against its own server mode", "stderr_tail": String::from_utf8_lossy(&o.stderr).chars().rev().take(600).collect::<String>().chars().rev().collect::<String>()})); }
        Err(_) => {}
    }
    let is_err = |rs: &Vec<Value>, name: &str| rs.len() == 1 && rs[0]["error"] == json!(name);
    for m in ["Test01", "Test02", "Test06", "Test09", "End"] {
        explored += 1;
        let rs = raw(json!({"method": format!("org.varlink.certification.{}", m)}));
        if !(is_err(&rs, "org.varlink.service.InvalidParameter") && rs[0]["parameters"]["parameter"] == json!("parameters")) {
            found.entry("dispatch").or_insert(json!({"what": "a method that takes parameters was called without `parameters`", "method": m, "replies": rs, "expected": "InvalidParameter(parameters)"}));
        }
    }
    // a method without parameters is dispatched whether or not a `parameters` member is sent
    for req in [json!({"method": "org.varlink.certification.Start"}), json!({"method": "org.varlink.certification.Start", "parameters": null}), json!({"method": "org.varlink.certification.Start", "parameters": {}})] {
        explored += 1;
        let rs = raw(req.clone());
        if !(rs.len() == 1 && rs[0]["error"].is_null() && rs[0]["parameters"]["client_id"].is_string()) {
            found.entry("dispatch").or_insert(json!({"what": "a method that takes no parameters", "request": req, "replies": rs, "expected": "the method's reply (a client id)"}));
        }
    }
    // a dictionary parameter that is absent is a missing parameter, not an empty dictionary
    {
        explored += 1;
        let rs = raw(json!({"method": "org.varlink.certification.Test08", "parameters": {"client_id": "x"}}));
        if !is_err(&rs, "org.varlink.service.InvalidParameter") {
            found.entry("dispatch").or_insert(json!({"what": "a dictionary parameter left out", "method": "Test08", "replies": rs, "expected": "InvalidParameter"}));
        }
    }
    for (m, p) in [("Test01", json!({"client_id": 7})), ("Test02", json!({"client_id": "x", "bool": "yes"})), ("Test03", json!({"client_id": "x"})), ("Test08", json!({"client_id": "x", "map": [1, 2]}))] {
        explored += 1;
        let rs = raw(json!({"method": format!("org.varlink.certification.{}", m), "parameters": p}));
        if !is_err(&rs, "org.varlink.service.InvalidParameter") {
            found.entry("dispatch").or_insert(json!({"what": "ill-typed or missing parameter", "method": m, "parameters": p, "replies": rs, "expected": "InvalidParameter"}));
        }
    }
    for m in ["Nope", "test01", "Test1", "Test011"] {
        explored += 1;
        let rs = raw(json!({"method": format!("org.varlink.certification.{}", m), "parameters": {}}));
        if !(is_err(&rs, "org.varlink.service.MethodNotFound") && rs[0]["parameters"]["method"] == json!(format!("org.varlink.certification.{}", m))) {
            found.entry("dispatch").or_insert(json!({"what": "a method the interface does not have", "method": m, "replies": rs, "expected": "MethodNotFound naming the full method"}));
        }
    }
    let _ = child.kill(); let _ = child.wait();
    let _ = std::fs::remove_dir_all(&dir);
    for ob in obs {
        let class = match *ob { "C08.dispatch" => "dispatch", _ => "client" };
        let f = found.get(class).or_else(|| found.get("dispatch")).or_else(|| found.get("client"));
        emit(ob, f.is_some(), explored, f.cloned().unwrap_or(Value::Null));
    }
}

// C12 (diagnostic slice): syntax errors at many positions (every truncation and every single-character corruption of a few definitions, with \n, \r\n and mixed
// line endings, blank lines, non-ASCII text): try_from must not panic, and Error::Parse { line, column } must name a line that is one of the input's lines
// (split on '\n') with 1 <= column <= chars(line) + 1.
fn search_parse_diag(obs: &[&str]) {
    use std::convert::TryFrom;
    use varlink_parser::IDL;
    let mut found: std::collections::HashMap<&'static str, Value> = std::collections::HashMap::new();
    let mut explored = 0usize;
    let bases = [
        "interface org.example.a\nmethod Foo(a: int, b: ?[]string) -> (c: (x: bool, y: [string]float))\ntype T (e: (one, two))\nerror E (m: string)\n",
        "# doc\r\ninterface org.example.b\r\n\r\nmethod Ping(ping: string) -> (pong: string)\r\n# \u{e9}\u{4e16}\r\nerror Bad ()\r\n",
        "interface org.example.c\n\n\n  method   M ( )->( )\n\ntype X (a: object, b: [string](), c: ?X)",
        // multi-byte whitespace in front of the tokens of a line: a column counted in bytes runs past the line
        "interface org.example.d\nmethod\u{3000}Foo(a:\u{a0}int) -> (b: string)\n\u{3000}type\u{3000}T (x: bool)\n",
        // every line-ending convention the grammar accepts: U+2028, U+2029, a lone CR
        "interface org.example.e\u{2028}method Foo(a: int) -> (b: string)\u{2029}\u{2029}type T (x: bool)\rerror E ()\r\u{2028}method Bar() -> ()\n",
    ];
    let mut texts: Vec<String> = Vec::new();
    for b in bases {
        let chars: Vec<char> = b.chars().collect();
        for cut in 0..chars.len() { texts.push(chars[..cut].iter().collect()); }
        for at in 0..chars.len() { for c in ['$', '\n', '(', '\u{e9}', '\r', '\u{2028}'] { let mut v = chars.clone(); v[at] = c; texts.push(v.iter().collect()); } }
    }
    for t in texts {
        explored += 1;
        let r = std::panic::catch_unwind(|| IDL::try_from(t.as_str()).map(|_| ()));
        match r {
            Err(_) => { found.entry("panic").or_insert(json!({"text": t, "observed": "try_from panicked"})); }
            Ok(Err(varlink_parser::Error::Parse { line, column })) => {
                let is_line = t.split('\n').any(|l| l == line);
                let col_ok = column >= 1 && column <= line.chars().count() + 1;
                if !is_line || !col_ok {
                    found.entry("line").or_insert(json!({"text": t, "reported_line": line, "reported_column": column, "line_is_a_line_of_the_input": is_line, "column_within_line": col_ok}));
                }
            }
            _ => {}
        }
    }
    for ob in obs {
        let class = if *ob == "C12.no-panic" { "panic" } else { "line" };
        let f = found.get(class).or_else(|| found.get("panic")).or_else(|| found.get("line"));
        emit(ob, f.is_some(), explored, f.cloned().unwrap_or(Value::Null));
    }
}

// C12, BOUNDED: parsing returns -- with a definition or an error, without panicking or overflowing the stack -- for struct nesting up to the property's "fixed generous depth" (200), valid and with an
// error at the innermost level, within a generous time limit.  Child process per text (a runaway parse cannot be stopped from inside): the clean tree needs milliseconds, the limit is 20 s.
fn parse_probe(depth: usize, kind: &str) -> i32 {
    use std::convert::TryFrom;
    let mut t = String::from("interface org.example.deep\n\nmethod M(a: ");
    for k in 0..depth { t.push_str(&format!("(f{}: ", k % 10)); }
    t.push_str(match kind { "valid" => "int", "typo" => "in t", "cut" => "", _ => "?? int" });
    if kind != "cut" { for _ in 0..depth { t.push(')'); } t.push_str(") -> ()\n"); }
    let r = std::thread::Builder::new().stack_size(8 << 20).spawn(move || varlink_parser::IDL::try_from(t.as_str()).map(|_| ()).map_err(|e| e.to_string())).unwrap().join();
    match r { Ok(Ok(())) => 0, Ok(Err(_)) => 3, Err(_) => 101 }
}
fn search_parse_depth(ob: &str) {
    let me = std::env::current_exe().unwrap();
    let mut found = None;
    let mut explored = 0;
    for depth in [1usize, 10, 25, 40, 100, 200] {
        for kind in ["valid", "typo", "cut", "badtype"] {
            explored += 1;
            let mut child = match std::process::Command::new(&me).arg("--parse-probe").arg(depth.to_string()).arg(kind)
                .stdout(std::process::Stdio::null()).stderr(std::process::Stdio::null()).spawn() { Ok(c) => c, Err(_) => continue };
            let t0 = std::time::Instant::now();
            let mut status = None;
            while t0.elapsed() < Duration::from_secs(20) {
                if let Ok(Some(st)) = child.try_wait() { status = Some(st); break; }
                std::thread::sleep(Duration::from_millis(5));
            }
            let want = if kind == "valid" { 0 } else { 3 };
            match status {
                None => { let _ = child.kill(); let _ = child.wait();
                    if found.is_none() { found = Some(json!({"text": format!("method M(a: (f0: (f1: ... {} levels ... {}", depth, kind), "observed": "no answer within 20 s", "expected": "a definition or an error value"})); } }
                Some(st) if st.code() != Some(want) => {
                    if found.is_none() { found = Some(json!({"text": format!("struct nesting depth {}, innermost: {}", depth, kind), "observed": format!("exit {:?} (101 = panic, signal = stack overflow)", st.code()), "expected_exit": want})); } }
                _ => {}
            }
            if found.is_some() { break; }
        }
        if found.is_some() { break; }
    }
    emit(ob, found.is_some(), explored, found.unwrap_or(Value::Null));
}

// C16 (server side of socket activation), child process: descriptor 3 (and 4) are listening unix sockets, the activation environment is set as asked, then
// Listener::new is called with an address it could never bind: prints ACTIVATED / OWN / ERR
fn activation_server_probe(fds: &str, pid_mode: &str, names: &str) -> i32 {
    use std::os::unix::io::AsRawFd;
    let dir = std::env::temp_dir().join(format!("vx-actsrv-{}", std::process::id()));
    let _ = std::fs::create_dir_all(&dir);
    let a = std::os::unix::net::UnixListener::bind(dir.join("a")).unwrap();
    let b = std::os::unix::net::UnixListener::bind(dir.join("b")).unwrap();
    extern "C" { fn dup2(a: i32, b: i32) -> i32; }
    unsafe { dup2(a.as_raw_fd(), 3); dup2(b.as_raw_fd(), 4); }
    std::env::set_var("LISTEN_FDS", fds);
    std::env::set_var("LISTEN_PID", if pid_mode == "own" { std::process::id().to_string() } else { "1".to_string() });
    if names == "-" { std::env::remove_var("LISTEN_FDNAMES"); } else { std::env::set_var("LISTEN_FDNAMES", names); }
    let r = varlink::Listener::new("unix:/nonexistent-directory-for-the-probe/sock");
    let out = match &r { Ok(varlink::Listener::UNIX(_, true)) | Ok(varlink::Listener::TCP(_, true)) => "ACTIVATED", Ok(_) => "OWN", Err(_) => "ERR" };
    println!("{}", out);
    std::mem::forget(r);
    let _ = std::fs::remove_dir_all(&dir);
    0
}
fn search_activation_server(ob: &str) {
    let me = std::env::current_exe().unwrap();
    let mut found = None;
    let mut explored = 0;
    // (LISTEN_FDS, LISTEN_PID names us?, LISTEN_FDNAMES, activation expected)
    for (fds, pid, names, want) in [("1", "own", "-", true), ("1", "own", "varlink", true), ("1", "own", "org.example.socket", true), ("1", "own", "a:b", true), ("1", "own", "", true),
                                    ("1", "other", "varlink", false), ("1", "other", "-", false), ("2", "own", "x:varlink", true), ("2", "own", "varlink:x", true), ("2", "own", "x:y", false),
                                    ("2", "other", "x:varlink", false), ("0", "own", "varlink", false), ("x", "own", "varlink", false)] {
        explored += 1;
        let o = match std::process::Command::new(&me).arg("--activation-server-probe").arg(fds).arg(pid).arg(names).stderr(std::process::Stdio::null()).output() { Ok(o) => o, Err(_) => continue };
        let got = String::from_utf8_lossy(&o.stdout).trim().to_string();
        let activated = got == "ACTIVATED";
        if activated != want && found.is_none() {
            found = Some(json!({"LISTEN_FDS": fds, "LISTEN_PID": if pid == "own" { "this process" } else { "another process" }, "LISTEN_FDNAMES": if names == "-" { "<unset>" } else { names },
                "Listener::new": got, "expected": if want { "the listener adopts the activation socket" } else { "activation is not honoured" }}));
        }
    }
    emit(ob, found.is_some(), explored, found.unwrap_or(Value::Null));
}

// C16 (activation clause): `Connection::with_activate(<real varlink-certification binary> --varlink=$VARLINK_ADDRESS)` followed by one GetInfo call, run in a
// child process of its own process group (a hang between fork and exec would otherwise leave a stuck process behind): it must answer within 10 s.
fn activation_probe(cmd: &str) -> i32 {
    use varlink::OrgVarlinkServiceInterface;
    match varlink::Connection::with_activate(cmd) {
        Err(e) => { eprintln!("with_activate failed: {:?}", e.kind()); 2 }
        Ok(conn) => {
            let mut c = varlink::OrgVarlinkServiceClient::new(conn);
            match c.get_info() { Ok(i) => { println!("OK {}", i.vendor); 0 } Err(e) => { eprintln!("GetInfo through the activated service failed: {:?}", e.kind()); 3 } }
        }
    }
}
fn search_activation(obs: &[&str]) {
    use std::os::unix::process::CommandExt;
    let mut found: Option<Value> = None;
    let mut explored = 0usize;
    let bin = match std::env::var("VX_CERT_BIN") { Ok(b) if std::path::Path::new(&b).exists() => b, _ => {
        for ob in obs { println!("{}", json!({"obligation": ob, "found": false, "explored": 0, "detail": Value::Null, "note": "VX_CERT_BIN not built"})); }
        return;
    } };
    let me = std::env::current_exe().unwrap();
    let service_cmd = format!("{} --varlink=$VARLINK_ADDRESS", bin);
    explored += 1;
    let mut cmd = std::process::Command::new(&me);
    cmd.arg("--activation-probe").arg(&service_cmd).stdin(std::process::Stdio::null()).stdout(std::process::Stdio::piped()).stderr(std::process::Stdio::piped()).process_group(0);
    if let Ok(mut child) = cmd.spawn() {
        let pgid = child.id() as i32;
        let t0 = std::time::Instant::now();
        let mut status = None;
        while t0.elapsed() < Duration::from_secs(10) { if let Ok(Some(st)) = child.try_wait() { status = Some(st); break; } std::thread::sleep(Duration::from_millis(20)); }
        extern "C" { fn kill(pid: i32, sig: i32) -> i32; }
        unsafe { kill(-pgid, 9); }
        let out = child.wait_with_output().ok();
        let (so, se) = out.map(|o| (String::from_utf8_lossy(&o.stdout).to_string(), String::from_utf8_lossy(&o.stderr).to_string())).unwrap_or_default();
        match status {
            None => { found = Some(json!({"call": "Connection::with_activate(\"<varlink-certification> --varlink=$VARLINK_ADDRESS\") + GetInfo", "observed": "no answer within 10 s (killed)", "stderr": se})); }
            Some(st) if !st.success() => { found = Some(json!({"call": "Connection::with_activate(\"<varlink-certification> --varlink=$VARLINK_ADDRESS\") + GetInfo", "observed": format!("probe exited with {:?}", st.code()), "stdout": so, "stderr": se.chars().take(600).collect::<String>()})); }
            _ => {}
        }
    }
    for ob in obs { emit(ob, found.is_some(), explored, found.clone().unwrap_or(Value::Null)); }
}

// C16 (bridge stdio clause): `Connection::with_bridge("<real varlink> bridge --connect unix:<socket of a real varlink-certification server>")` + GetInfo, in a
// child process with a 10 s limit: it must answer (and the probing process must not be aborted).
fn bridge_probe(cmd: &str) -> i32 {
    use varlink::OrgVarlinkServiceInterface;
    match varlink::Connection::with_bridge(cmd) {
        Err(e) => { eprintln!("with_bridge failed: {:?}", e.kind()); 2 }
        Ok(conn) => {
            let mut c = varlink::OrgVarlinkServiceClient::new(conn);
            match c.get_info() { Ok(i) => { println!("OK {}", i.vendor); 0 } Err(e) => { eprintln!("GetInfo through the bridge command failed: {:?}", e.kind()); 3 } }
        }
    }
}
fn search_bridge_conn(obs: &[&str]) {
    use std::os::unix::process::CommandExt;
    let mut found: Option<Value> = None;
    let mut explored = 0usize;
    let (cert, cli) = match (std::env::var("VX_CERT_BIN"), std::env::var("VX_CLI_BIN")) {
        (Ok(a), Ok(b)) if std::path::Path::new(&a).exists() && std::path::Path::new(&b).exists() => (a, b),
        _ => { for ob in obs { println!("{}", json!({"obligation": ob, "found": false, "explored": 0, "detail": Value::Null, "note": "VX_CERT_BIN / VX_CLI_BIN not built"})); } return; }
    };
    let dir = std::env::temp_dir().join(format!("vx-c16b-{}", std::process::id()));
    let _ = std::fs::create_dir_all(&dir);
    let sock = dir.join("cert");
    let mut server = match std::process::Command::new(&cert).arg(format!("--varlink=unix:{}", sock.display())).arg("--timeout").arg("60")
        .stdin(std::process::Stdio::null()).stdout(std::process::Stdio::null()).stderr(std::process::Stdio::null()).spawn() { Ok(c) => c, Err(_) => return };
    for _ in 0..200 { if sock.exists() { break; } std::thread::sleep(Duration::from_millis(20)); }
    let me = std::env::current_exe().unwrap();
    let bridge_cmd = format!("{} bridge --connect unix:{}", cli, sock.display());
    explored += 1;
    let mut cmd = std::process::Command::new(&me);
    cmd.arg("--bridge-probe").arg(&bridge_cmd).stdin(std::process::Stdio::null()).stdout(std::process::Stdio::piped()).stderr(std::process::Stdio::piped()).process_group(0);
    if let Ok(mut child) = cmd.spawn() {
        let pgid = child.id() as i32;
        let t0 = std::time::Instant::now();
        let mut status = None;
        while t0.elapsed() < Duration::from_secs(10) { if let Ok(Some(st)) = child.try_wait() { status = Some(st); break; } std::thread::sleep(Duration::from_millis(20)); }
        extern "C" { fn kill(pid: i32, sig: i32) -> i32; }
        unsafe { kill(-pgid, 9); }
        let out = child.wait_with_output().ok();
        let (so, se) = out.map(|o| (String::from_utf8_lossy(&o.stdout).to_string(), String::from_utf8_lossy(&o.stderr).to_string())).unwrap_or_default();
        let what = "Connection::with_bridge(\"<varlink> bridge --connect unix:<certification server>\") + GetInfo";
        match status {
            None => { found = Some(json!({"call": what, "observed": "no answer within 10 s (killed)", "stderr": se})); }
            Some(st) if !st.success() => { found = Some(json!({"call": what, "observed": format!("probe ended with {:?}", st), "stdout": so, "stderr": se.chars().take(600).collect::<String>()})); }
            _ => {}
        }
    }
    let _ = server.kill(); let _ = server.wait();
    let _ = std::fs::remove_dir_all(&dir);
    for ob in obs { emit(ob, found.is_some(), explored, found.clone().unwrap_or(Value::Null)); }
}

// C11, BOUNDED (not a proof): every interface name of length <= 7 over the alphabet {a, B, 0, -, .} is put in front of one method and parsed; the name must be
// accepted exactly when it is a reverse-domain name whose elements neither start nor end with a hyphen (>= 2 non-empty elements of letters, digits and inner
// hyphens, the first starting with a letter).  The peg grammar itself is outside the verifier's reach; this stands in for it, up to the bound.
fn search_iface_names(obs: &[&str]) {
    use std::convert::TryFrom;
    use varlink_parser::IDL;
    let mut found: Option<Value> = None;
    let mut explored = 0usize;
    let alpha = ['a', 'B', '0', '-', '.'];
    let mut names: Vec<String> = vec![String::new()];
    let mut frontier: Vec<String> = vec![String::new()];
    for _ in 0..7 {
        let mut next = Vec::new();
        for n in &frontier { for c in alpha { let mut m = n.clone(); m.push(c); next.push(m); } }
        names.extend(next.iter().cloned());
        frontier = next;
    }
    let elem_ok = |e: &str, first: bool| -> bool {
        let cs: Vec<char> = e.chars().collect();
        if cs.is_empty() || cs[0] == '-' || *cs.last().unwrap() == '-' { return false; }
        if first && !cs[0].is_ascii_alphabetic() { return false; }
        // the grammar in the tree restricts the REST of the first element to lower case, digits and hyphens; that restriction is not part of the property
        if first && cs[1..].iter().any(|c| c.is_ascii_uppercase()) { return false; }
        true
    };
    for n in names {
        if n.is_empty() { continue; }
        explored += 1;
        let elems: Vec<&str> = n.split('.').collect();
        let want = elems.len() >= 2 && elems.iter().enumerate().all(|(i, e)| elem_ok(e, i == 0));
        let text = format!("interface {}\n\nmethod F() -> ()\n", n);
        let got = IDL::try_from(text.as_str()).map(|i| i.name == n).unwrap_or(false);
        if got != want && found.is_none() {
            found = Some(json!({"interface_name": n, "accepted": got, "expected_accepted": want, "rule": "elements are non-empty, neither start nor end with a hyphen, at least two of them, the first starts with a letter"}));
        }
    }
    for ob in obs { emit(ob, found.is_some(), explored, found.clone().unwrap_or(Value::Null)); }
}

// C11, BOUNDED (not a proof): every type expression made of <= 5 of the tokens `?`, `[]`, `[string]`, `bool`, `Foo`, `(a: int)`, `(one, two)` is used as the type of a method
// parameter; the definition must be accepted exactly when the expression follows the documented grammar: a basic type (primitive, type name, struct, enum), optionally
// preceded by ONE `?`; or `[]` / `[string]` (optionally preceded by ONE `?`) followed by a type expression.  A `?` directly in front of another `?` is not a type.
fn search_type_exprs(obs: &[&str]) {
    use std::convert::TryFrom;
    use varlink_parser::IDL;
    let mut found: Option<Value> = None;
    let mut explored = 0usize;
    let toks = ["?", "[]", "[string]", "bool", "Foo", "(a: int)", "(one, two)"];
    fn is_basic(t: &str) -> bool { !matches!(t, "?" | "[]" | "[string]") }
    // reference recogniser over the token sequence
    fn ty(ts: &[&str]) -> bool {
        match ts.first() {
            None => false,
            Some(&"?") => match ts.get(1) { Some(&"?") | None => false, Some(t) if is_basic(t) => ts.len() == 2, Some(_) => ty(&ts[2..]) },
            Some(&"[]") | Some(&"[string]") => ty(&ts[1..]),
            Some(_) => ts.len() == 1,
        }
    }
    let mut seqs: Vec<Vec<&str>> = vec![vec![]];
    let mut frontier: Vec<Vec<&str>> = vec![vec![]];
    for _ in 0..5 {
        let mut next = Vec::new();
        for s in &frontier { for t in toks { let mut n = s.clone(); n.push(t); next.push(n); } }
        seqs.extend(next.iter().cloned());
        frontier = next;
    }
    for ts in seqs {
        if ts.is_empty() { continue; }
        // two word tokens next to each other would concatenate into ONE (different) type name: not a sequence of these tokens any more
        if ts.windows(2).any(|w| matches!(w[0], "bool" | "Foo") && matches!(w[1], "bool" | "Foo")) { continue; }
        explored += 1;
        let expr: String = ts.concat();
        let text = format!("interface org.example.t\n\ntype Foo (x: int)\n\nmethod F(p: {}) -> ()\n", expr);
        let got = IDL::try_from(text.as_str()).is_ok();
        let want = ty(&ts);
        if got != want && found.is_none() {
            found = Some(json!({"type_expression": expr, "accepted": got, "expected_accepted": want}));
        }
    }
    for ob in obs { emit(ob, found.is_some(), explored, found.clone().unwrap_or(Value::Null)); }
}

// C10, BOUNDED (not a proof; the layout printer is format!/String code this Verus build cannot reason about and the parser is a peg expansion): every definition of a finite
// family (see `fmt_corpus`) is parsed, formatted at top level (`get_multiline(0, w)`) for EVERY width w in 0..=100 (and 1000), and the formatted text must
//   (parse)      be accepted by the real parser,
//   (preserve)   give a definition with the same interface name, documentation comments, member names in order per kind, field names and types (compared with an
//                independent structural dump written here, not with the formatter),
//   (idempotent) format, at the same width, to the same text byte for byte,
//   (colored)    equal the colored rendering at that width once ANSI escape sequences (ESC [ ... m) are removed,
//   (display)    and Display is the width-80 rendering.
fn dump_type(t: &varlink_parser::VTypeExt, out: &mut String) {
    use varlink_parser::{VType, VTypeExt};
    match t {
        VTypeExt::Array(v) => { out.push_str("A<"); dump_type(v, out); out.push('>'); }
        VTypeExt::Dict(v) => { out.push_str("D<"); dump_type(v, out); out.push('>'); }
        VTypeExt::Option(v) => { out.push_str("O<"); dump_type(v, out); out.push('>'); }
        VTypeExt::Plain(p) => match p {
            VType::Bool => out.push_str("bool"), VType::Int => out.push_str("int"), VType::Float => out.push_str("float"),
            VType::String => out.push_str("string"), VType::Object => out.push_str("object"),
            VType::Typename(n) => { out.push_str("T:"); out.push_str(n); }
            VType::Struct(s) => dump_struct(s, out),
            VType::Enum(e) => { out.push_str("E{"); for x in &e.elts { out.push_str(x); out.push(','); } out.push('}'); }
        },
    }
}
fn dump_struct(s: &varlink_parser::VStruct, out: &mut String) {
    out.push_str("S{");
    for a in &s.elts { out.push_str(a.name); out.push(':'); dump_type(&a.vtype, out); out.push(','); }
    out.push('}');
}
fn dump_idl(i: &varlink_parser::IDL) -> String {
    use varlink_parser::VStructOrEnum;
    let mut o = String::new();
    o.push_str(&format!("name={}\ndoc={:?}\n", i.name, i.doc));
    for k in &i.typedef_keys {
        let t = &i.typedefs[k];
        o.push_str(&format!("type {} doc={:?} ", t.name, t.doc));
        match &t.elt { VStructOrEnum::VStruct(s) => dump_struct(s, &mut o), VStructOrEnum::VEnum(e) => { o.push_str("E{"); for x in &e.elts { o.push_str(x); o.push(','); } o.push('}'); } }
        o.push('\n');
    }
    for k in &i.method_keys {
        let m = &i.methods[k];
        o.push_str(&format!("method {} doc={:?} ", m.name, m.doc));
        dump_struct(&m.input, &mut o); o.push_str("->"); dump_struct(&m.output, &mut o); o.push('\n');
    }
    for k in &i.error_keys {
        let e = &i.errors[k];
        o.push_str(&format!("error {} doc={:?} ", e.name, e.doc));
        dump_struct(&e.parm, &mut o); o.push('\n');
    }
    o
}
fn strip_ansi(s: &str) -> String {
    let mut o = String::new();
    let mut it = s.chars().peekable();
    while let Some(c) = it.next() {
        if c == '\u{1b}' && it.peek() == Some(&'[') {
            it.next();
            while let Some(d) = it.next() { if d.is_ascii_alphabetic() { break; } }
        } else { o.push(c); }
    }
    o
}
fn fmt_corpus() -> Vec<String> {
    let types = ["bool", "?int", "[]string", "[string]Foo", "(a: int, b: ?string)", "(one, two, three)",
        "(x: (y: [](z: bool, w: [string]()), v: float), u: object)", "?[](k: (deep: ?[string](e1, e2)))"];
    // member templates: {N} is replaced by a position-dependent suffix so that names stay distinct
    let mut members: Vec<String> = vec![
        "type Ty{N} (a: int)".into(), "type En{N} (one, two)".into(), "type Empty{N} ()".into(),
        "type Big{N} (first_field_with_a_long_name: [string](key: int, value: []?string), second_field_with_a_long_name: ?(lo: float, hi: float), third: (red, green, blue))".into(),
        "method Nop{N}() -> ()".into(), "error Plain{N} ()".into(),
        "method Long{N}(a_long_argument_name: []string, another_long_argument_name: ?(x: int, y: int)) -> (a_long_result_name: [string]object, another_long_result_name: (off, on))".into(),
        "method In{N}(only_input_is_long_enough_to_wrap_at_moderate_widths: (a: int, b: int, c: int)) -> ()".into(),
        "method Out{N}() -> (only_output_is_long_enough_to_wrap_at_moderate_widths: (a: int, b: int, c: int))".into(),
        "error Detailed{N} (reason: string, fields_with_a_long_name_of_their_own: [](name: string, kind: (missing, invalid)))".into(),
    ];
    for (k, t) in types.iter().enumerate() {
        if k % 2 == 0 { members.push(format!("method M{}x{{N}}(p: {}) -> (r: {})", k, t, t)); } else { members.push(format!("error E{}x{{N}} (p: {})", k, t)); }
    }
    // every decoration prefix of <= 3 of `?`, `[]`, `[string]` (no `??`) in front of an anonymous struct and an anonymous enum: as the fields of one type and as method parameters
    let decos = ["?", "[]", "[string]"];
    let mut prefixes: Vec<String> = vec![String::new()];
    let mut frontier: Vec<String> = vec![String::new()];
    for _ in 0..3 {
        let mut next = Vec::new();
        for p in &frontier { for d in decos { if d == "?" && p.ends_with('?') { continue; } next.push(format!("{}{}", p, d)); } }
        prefixes.extend(next.iter().cloned());
        frontier = next;
    }
    let mut fields = Vec::new();
    for (k, p) in prefixes.iter().enumerate() {
        fields.push(format!("s{}: {}(alpha: int, beta: ?string)", k, p));
        fields.push(format!("e{}: {}(left, right)", k, p));
    }
    for chunk in fields.chunks(6) {
        members.push(format!("type Deco{{N}}x{} ({})", members.len(), chunk.join(", ")));
        members.push(format!("method Deco{{N}}x{}({}) -> ({})", members.len(), chunk[..chunk.len() / 2].join(", "), chunk[chunk.len() / 2..].join(", ")));
    }
    let docs: [&[&str]; 4] = [&[], &["# one line of documentation"], &["# first line", "#   second line, indented", "#", "# after an empty comment line"],
        // a documentation block with CRLF line endings (the `\r` belongs to the comment line it ends)
        &["# crlf first line\r", "# crlf second line\r", "# crlf third line"]];
    let mut out = Vec::new();
    let n = members.len();
    let mut seqs: Vec<Vec<usize>> = Vec::new();
    for a in 0..n { seqs.push(vec![a]); for b in 0..n { if a < 18 && b < 18 { seqs.push(vec![a, b]); } } if a >= 18 { seqs.push(vec![0, a]); seqs.push(vec![a, 9]); } }
    // triples over a reduced set (one of each kind / shape)
    let red = [0usize, 1, 3, 4, 6, 9];
    for a in red { for b in red { for c in red { seqs.push(vec![a, b, c]); } } }
    for idoc in 0..3 {
        for d in 0..4 {
            // the CRLF layouts go together and only with the short sequences over the first dozen templates (keeps the run short)
            if (idoc == 2) != (d == 3) { continue; }
            for s in &seqs {
                if d == 3 && (s.len() > 2 || s.iter().any(|k| *k >= 12)) { continue; }
                let mut t = String::new();
                if idoc == 1 { t.push_str("# The interface documentation\n# in two lines\n"); }
                if idoc == 2 { t.push_str("# The interface documentation\r\n# in two lines, CRLF\r\n"); }
                t.push_str("interface org.example.fmt\n");
                for (pos, m) in s.iter().enumerate() {
                    t.push('\n');
                    // vary the documentation per member position so that a doc attached to the wrong member shows
                    let dd = docs[(d + pos) % 4];
                    for l in dd { t.push_str(l); t.push('\n'); }
                    t.push_str(&members[*m].replace("{N}", &format!("{}", pos)));
                    t.push('\n');
                }
                out.push(t);
            }
        }
    }
    out
}
fn search_format(obs: &[&str]) {
    use std::convert::TryFrom;
    use varlink_parser::{Format, FormatColored, IDL};
    colored::control::set_override(true);
    let corpus = fmt_corpus();
    let mut found: std::collections::BTreeMap<&str, Value> = Default::default();
    let mut explored = 0usize;
    let mut distinct = std::collections::HashSet::new();
    let mut sample: Option<Value> = None;
    for (ci, src) in corpus.iter().enumerate() {
        let a = match IDL::try_from(src.as_str()) { Ok(a) => a, Err(e) => { found.entry("C10.corpus").or_insert(json!({"source": src, "error": format!("{}", e)})); continue; } };
        let da = dump_idl(&a);
        // every width for the one- and two-member definitions, a spread of widths for the triples
        let widths: Vec<usize> = if src.matches("\n\n").count() <= 2 { (0..=100).chain(std::iter::once(1000)).collect() } else { vec![0, 1, 20, 33, 40, 50, 60, 72, 79, 80, 81, 100, 1000] };
        for w in widths {
            explored += 1;
            let f1 = match std::panic::catch_unwind(std::panic::AssertUnwindSafe(|| a.get_multiline(0, w))) {
                Ok(f) => f,
                Err(_) => { found.entry("C10.parse-bounded").or_insert(json!({"source": src, "width": w, "observed": "get_multiline panicked"})); continue; }
            };
            if distinct.len() < 200000 { distinct.insert(f1.clone()); }
            if sample.is_none() && ci == 7 && w == 40 { sample = Some(json!({"source": src, "width": w, "formatted": f1})); }
            match IDL::try_from(f1.as_str()) {
                Err(e) => { found.entry("C10.parse-bounded").or_insert(json!({"source": src, "width": w, "formatted": f1, "observed": format!("the formatted text is rejected: {}", e)})); }
                Ok(b) => {
                    let db = dump_idl(&b);
                    if db != da { found.entry("C10.preserve-bounded").or_insert(json!({"source": src, "width": w, "formatted": f1, "expected_structure": da, "observed_structure": db})); }
                    let f2 = b.get_multiline(0, w);
                    if f2 != f1 { found.entry("C10.idempotent-bounded").or_insert(json!({"source": src, "width": w, "formatted_once": f1, "formatted_twice": f2})); }
                }
            }
            let c = a.get_multiline_colored(0, w);
            if strip_ansi(&c) != f1 { found.entry("C10.colored-bounded").or_insert(json!({"source": src, "width": w, "plain": f1, "colored_without_escapes": strip_ansi(&c)})); }
            if !c.contains('\u{1b}') { found.entry("C10.colored-bounded").or_insert(json!({"source": src, "width": w, "observed": "the colored rendering carries no escape sequence (override on)"})); }
        }
        if a.to_string() != a.get_multiline(0, 80) { found.entry("C10.display-bounded").or_insert(json!({"source": src, "display": a.to_string(), "width80": a.get_multiline(0, 80)})); }
        // the one-line renderings: Display of the parts is get_oneline; the colored one-line rendering differs by escapes only
        if strip_ansi(&a.get_oneline_colored()) != a.get_oneline() { found.entry("C10.colored-bounded").or_insert(json!({"source": src, "oneline": a.get_oneline(), "colored_without_escapes": strip_ansi(&a.get_oneline_colored())})); }
    }
    for ob in obs {
        let hit = found.get(ob).cloned().or_else(|| if *ob != "C10.corpus" { None } else { None });
        let corpus_bad = found.get("C10.corpus").cloned();
        let mut d = hit.clone().unwrap_or(Value::Null);
        if hit.is_none() { if let Some(cb) = corpus_bad.clone() { if *ob == "C10.parse-bounded" { d = json!({"corpus_definition_rejected": cb}); } } }
        let f = hit.is_some() || (*ob == "C10.parse-bounded" && corpus_bad.is_some());
        println!("{}", json!({"obligation": ob, "found": f, "explored": explored, "distinct": distinct.len(), "definitions": corpus.len(), "detail": d, "sample": sample}));
    }
}

// C09 replay: the real varlink_generator::generate / compile on inputs the parser rejects (and on unreadable input) must return an error and write NOTHING;
// on an accepted definition the output is written once and is the same text on a second run.
struct CountingWriter { data: Vec<u8>, writes: usize }
impl Write for CountingWriter {
    fn write(&mut self, b: &[u8]) -> std::io::Result<usize> { self.writes += 1; self.data.extend_from_slice(b); Ok(b.len()) }
    fn flush(&mut self) -> std::io::Result<()> { Ok(()) }
}
struct FailingReader;
impl Read for FailingReader { fn read(&mut self, _: &mut [u8]) -> std::io::Result<usize> { Err(std::io::Error::new(std::io::ErrorKind::Other, "boom")) } }
// C09: the build-script front end on several inputs in one call: child process (the helpers call process::exit on failure)
fn cargo_build_probe(dir: &str) -> i32 {
    let d = std::path::Path::new(dir);
    std::env::set_var("OUT_DIR", d.join("out"));
    let files: Vec<std::path::PathBuf> = (0..3).map(|k| d.join(format!("org.example.p{}.varlink", k))).collect();
    varlink_generator::cargo_build_many(&files);
    varlink_generator::cargo_build_tosource(&d.join("org.example.p1.varlink"), false);
    0
}
fn search_cargo_build(found: &mut std::collections::BTreeMap<&str, Value>) -> usize {
    let dir = std::env::temp_dir().join(format!("vx-replay-c09-{}", std::process::id()));
    let _ = std::fs::remove_dir_all(&dir);
    std::fs::create_dir_all(dir.join("out")).unwrap();
    let mut texts = Vec::new();
    for k in 0..3 {
        let t = format!("# definition {k}\ninterface org.example.p{k}\n\ntype T{k} (a: int, b: ?[]string)\n\nmethod M{k}(t: T{k}) -> (r: [string]T{k})\n\nerror E{k} (why: string)\n", k = k);
        std::fs::write(dir.join(format!("org.example.p{}.varlink", k)), &t).unwrap();
        texts.push(t);
    }
    let me = std::env::current_exe().unwrap();
    let out = std::process::Command::new(me).arg("--cargo-build-probe").arg(&dir).output();
    match out {
        Ok(o) => {
            if !o.status.success() {
                found.entry("C09.total").or_insert(json!({"input": "cargo_build_many(&[p0, p1, p2]) with three accepted definitions, then cargo_build_tosource(p1)", "observed": format!("the build-script helper terminated the process: {:?}", o.status.code()),
                    "stderr": String::from_utf8_lossy(&o.stderr).chars().take(600).collect::<String>()}));
            } else {
                for (k, t) in texts.iter().enumerate() {
                    let mut w = CountingWriter { data: Vec::new(), writes: 0 };
                    let _ = varlink_generator::generate(&mut t.as_bytes(), &mut w, false);
                    let got = std::fs::read(dir.join("out").join(format!("org.example.p{}.rs", k))).unwrap_or_default();
                    if got != w.data || got.is_empty() {
                        found.entry("C09.emit").or_insert(json!({"input": format!("cargo_build_many(&[p0, p1, p2]): output for p{}", k), "observed": format!("{} bytes written, generate() of the same definition gives {}", got.len(), w.data.len())}));
                    }
                }
                let mut w = CountingWriter { data: Vec::new(), writes: 0 };
                let _ = varlink_generator::generate(&mut texts[1].as_bytes(), &mut w, true);
                let got = std::fs::read(dir.join("org_example_p1.rs")).unwrap_or_default();
                if got != w.data || got.is_empty() {
                    found.entry("C09.emit").or_insert(json!({"input": "cargo_build_tosource(p1)", "observed": format!("{} bytes written, generate(tosource) of the same definition gives {}", got.len(), w.data.len())}));
                }
            }
        }
        Err(e) => { found.entry("C09.total").or_insert(json!({"observed": format!("probe did not start: {}", e)})); }
    }
    let _ = std::fs::remove_dir_all(&dir);
    4
}

fn search_generate(obs: &[&str]) {
    use std::convert::TryFrom;
    let good = "# doc\ninterface org.example.g\n\ntype T (a: int, b: ?[]string)\n\nmethod M(t: T) -> (r: [string]T)\n\nerror E (why: string)\n";
    let mut found: std::collections::BTreeMap<&str, Value> = Default::default();
    let mut explored = 0usize;
    // rejected inputs: every truncation of a good definition that the parser rejects, duplicates, garbage, invalid UTF-8
    let mut bad: Vec<Vec<u8>> = Vec::new();
    for k in 0..good.len() { if good.is_char_boundary(k) { bad.push(good.as_bytes()[..k].to_vec()); } }
    bad.push(b"interface org.example.g\n\nmethod A() -> ()\n\nmethod A() -> ()\n".to_vec());
    bad.push(b"interface org.example.g\n\ntype A (a: int)\n\nerror A ()\n".to_vec());
    bad.push(b"interface x\n\nmethod A() -> ()\n".to_vec());
    bad.push(b"\xff\xfe interface org.example.g\n".to_vec());
    bad.push(b"interface org.example.g\n\nmethod A(a: ??int) -> ()\n".to_vec());
    for tosource in [false, true] {
        for b in &bad {
            let rejected = match std::str::from_utf8(b) { Ok(t) => varlink_parser::IDL::try_from(t).is_err(), Err(_) => true };
            if !rejected { continue; }
            explored += 1;
            let mut w = CountingWriter { data: Vec::new(), writes: 0 };
            let r = std::panic::catch_unwind(std::panic::AssertUnwindSafe(|| varlink_generator::generate(&mut &b[..], &mut w, tosource)));
            let shown = String::from_utf8_lossy(b).to_string();
            match r {
                Err(_) => { found.entry("C09.no-panic").or_insert(json!({"input": shown, "observed": "generate panicked"})); }
                Ok(Ok(())) => { found.entry("C09.reject").or_insert(json!({"input": shown, "observed": "generate returned Ok for an input the parser rejects", "bytes_written": w.data.len()})); }
                Ok(Err(e)) => {
                    if !w.data.is_empty() { found.entry("C09.reject").or_insert(json!({"input": shown, "observed": "an error was returned but output was written", "bytes_written": w.data.len()})); }
                    if format!("{}", e).is_empty() { found.entry("C09.reject").or_insert(json!({"input": shown, "observed": "the error renders as an empty diagnostic"})); }
                    if std::str::from_utf8(b).is_err() && !matches!(e, varlink_generator::Error::Io(_)) { found.entry("C09.io").or_insert(json!({"input": shown, "observed": format!("{:?}", e)})); }
                    if std::str::from_utf8(b).is_ok() && !matches!(e, varlink_generator::Error::Parse(_)) { found.entry("C09.reject").or_insert(json!({"input": shown, "observed": format!("{:?}", e)})); }
                }
            }
            if let Ok(t) = std::str::from_utf8(b) {
                match std::panic::catch_unwind(|| varlink_generator::compile(t.to_string())) {
                    Ok(Ok(_)) => { found.entry("C09.reject").or_insert(json!({"input": shown, "observed": "compile returned Ok for an input the parser rejects"})); }
                    Ok(Err(_)) => {}
                    Err(_) => { found.entry("C09.no-panic").or_insert(json!({"input": shown, "observed": "compile panicked"})); }
                }
            }
        }
        explored += 1;
        let mut w = CountingWriter { data: Vec::new(), writes: 0 };
        match varlink_generator::generate(&mut FailingReader, &mut w, tosource) {
            Err(varlink_generator::Error::Io(_)) if w.data.is_empty() => {}
            other => { found.entry("C09.io").or_insert(json!({"input": "<reader that fails>", "observed": format!("{:?} with {} bytes written", other.map_err(|e| e.to_string()), w.data.len())})); }
        }
        // accepted input: written, non-empty, deterministic
        explored += 1;
        let mut w1 = CountingWriter { data: Vec::new(), writes: 0 };
        let mut w2 = CountingWriter { data: Vec::new(), writes: 0 };
        let r1 = varlink_generator::generate(&mut good.as_bytes(), &mut w1, tosource);
        let r2 = varlink_generator::generate(&mut good.as_bytes(), &mut w2, tosource);
        if r1.is_err() || r2.is_err() || w1.data.is_empty() || w1.data != w2.data {
            found.entry("C09.emit").or_insert(json!({"input": good, "observed": format!("ok={} ok={} bytes={} equal={}", r1.is_ok(), r2.is_ok(), w1.data.len(), w1.data == w2.data)}));
        }
        if let Ok(ts) = varlink_generator::compile(good.to_string()) {
            if tosource && ts.to_string().as_bytes() != &w1.data[..] { found.entry("C09.emit").or_insert(json!({"input": good, "observed": "generate(tosource) and compile disagree on the emitted text"})); }
        } else { found.entry("C09.total").or_insert(json!({"input": good, "observed": "compile fails on an accepted definition"})); }
    }
    explored += search_cargo_build(&mut found);
    for ob in obs { emit(ob, found.contains_key(ob), explored, found.get(ob).cloned().unwrap_or(Value::Null)); }
}

fn main() {
    if std::env::args().nth(1).as_deref() == Some("--activation-server-probe") {
        let a: Vec<String> = std::env::args().collect();
        std::process::exit(activation_server_probe(&a[2], &a[3], &a[4]));
    }
    if std::env::args().nth(1).as_deref() == Some("--parse-probe") {
        std::process::exit(parse_probe(std::env::args().nth(2).and_then(|d| d.parse().ok()).unwrap_or(1), &std::env::args().nth(3).unwrap_or_default()));
    }
    if std::env::args().nth(1).as_deref() == Some("--cargo-build-probe") {
        std::process::exit(cargo_build_probe(&std::env::args().nth(2).unwrap_or_default()));
    }
    if std::env::args().nth(1).as_deref() == Some("--bridge-probe") {
        std::process::exit(bridge_probe(&std::env::args().nth(2).unwrap_or_default()));
    }
    if std::env::args().nth(1).as_deref() == Some("--activation-probe") {
        std::process::exit(activation_probe(&std::env::args().nth(2).unwrap_or_default()));
    }
    let pat = std::env::args().nth(1).unwrap_or_else(|| "*".to_string());
    let m = |ob: &str| -> bool {
        if pat == "*" { return true; }
        if let Some(p) = pat.strip_suffix(".*") { return ob.starts_with(&format!("{}.", p)); }
        ob == pat
    };
    std::panic::set_hook(Box::new(|_| {}));
    // VX_REPLAY_DET=1: only the searches that run in memory, without sockets, child processes or clocks (the part of the corpus that is run after EVERY successful proof)
    let det = std::env::var("VX_REPLAY_DET").is_ok();
    let seq_obs: Vec<&str> = ["C01.served", "C01.answers", "C01.record", "C01.prefix-answered", "C02.conserve", "C06.reject", "C04.silent", "C04.funnel", "C05.wire",
        "C03.route", "C03.builtin", "C03.split", "C03.std-error", "C03.info", "C06.no-panic"].iter().cloned().filter(|o| m(o)).collect();
    if !seq_obs.is_empty() { search_sequences(&seq_obs); }
    let cut_obs: Vec<&str> = ["C02.conserve", "C02.tail"].iter().cloned().filter(|o| m(o)).collect();
    if !cut_obs.is_empty() { search_cuts(&cut_obs); }
    let large_obs: Vec<&str> = ["C01.served", "C02.conserve", "C06.no-panic"].iter().cloned().filter(|o| m(o)).collect();
    if !large_obs.is_empty() { search_large(&large_obs); }
    if m("C05.gate") { search_gate("C05.gate"); }
    if m("C06.no-reply") { search_malformed("C06.no-reply"); }
    if m("C02.upgrade") { search_upgrade("C02.upgrade"); }
    if !det && m("C02.listen-forward") { search_listen_forward("C02.listen-forward"); }
    if !det && m("C02.no-wait") { search_no_wait("C02.no-wait"); }
    if m("C17.set-de") { search_stringset("C17.set-de"); }
    if m("C17.set-ser") { search_stringset("C17.set-ser"); }
    // C08's clause "string sets as objects of empty objects" is carried by the hand-written Serialize of StringHashSet (C17's unit): same search, C08's name
    if m("C08.stringset-wire") { search_stringset("C08.stringset-wire"); }
    if !det && m("C14.bound") { search_pool_bound("C14.bound"); }
    if !det && m("C14.no-strand") { search_pool_strand("C14.no-strand"); }
    if !det && m("C14.w-monotone") { search_pool_strand("C14.w-monotone"); }
    let cl: Vec<&str> = ["C07.once", "C07.busy", "C07.take", "C07.reuse", "C07.outcome", "C07.kind", "C07.wire", "C08.client", "C05.recv", "C05.next", "C05.more", "C04.client"].iter().cloned().filter(|o| m(o)).collect();
    if !cl.is_empty() { search_client(&cl); }
    let th: Vec<&str> = ["C07.busy", "C07.take", "C07.no-panic"].iter().cloned().filter(|o| m(o)).collect();
    if !det && !th.is_empty() { search_client_threads(&th); }
    let lt: Vec<&str> = ["C15.idle", "C15.drain", "C15.drain-w", "C15.busy", "C15.stop", "C15.no-panic"].iter().cloned().filter(|o| m(o)).collect();
    if !det && !lt.is_empty() { search_listen_time(&lt); }
    if !det && m("C15.unlink") { search_unlink("C15.unlink"); }
    if m("C11.iface-name-bounded") { search_iface_names(&["C11.iface-name-bounded"]); }
    if m("C11.type-expr-bounded") { search_type_exprs(&["C11.type-expr-bounded"]); }
    let idl: Vec<&str> = ["C11.dups-reported", "C11.reject-dups", "C11.no-false-dups", "C11.accept", "C11.order", "C11.mirror", "C11.reject-syntax", "C11.no-panic"].iter().cloned().filter(|o| m(o)).collect();
    if !idl.is_empty() { search_idl(&idl); }
    let ad: Vec<&str> = ["C16.scheme", "C16.params", "C16.activation", "C16.no-panic"].iter().cloned().filter(|o| m(o)).collect();
    if !det && !ad.is_empty() { search_address(&ad); }
    if !det && m("C16.activation-honoured") { search_activation_server("C16.activation-honoured"); }
    if !det && m("C16.activation") { search_activation_server("C16.activation"); }
    if m("C03.info") { search_info_dups("C03.info"); }
    let cli: Vec<&str> = ["C20.split", "C20.status", "C20.print", "C20.no-panic"].iter().cloned().filter(|o| m(o)).collect();
    if !det && !cli.is_empty() { search_cli(&cli); }
    let br: Vec<&str> = ["C18.relay", "C18.copy", "C18.request", "C18.getinfo", "C18.oneway", "C18.no-panic", "C18.upgrade-forward", "C18.flush", "C18.close-drain"].iter().cloned().filter(|o| m(o)).collect();
    if !det && !br.is_empty() { search_bridge(&br); }
    let act: Vec<&str> = ["C16.pre-exec-safe", "C16.activation-fd", "C16.activation-env"].iter().cloned().filter(|o| m(o)).collect();
    if !det && !act.is_empty() { search_activation(&act); }
    let bc: Vec<&str> = ["C16.bridge-fds"].iter().cloned().filter(|o| m(o)).collect();
    if !det && !bc.is_empty() { search_bridge_conn(&bc); }
    let pd: Vec<&str> = ["C12.line", "C12.no-panic"].iter().cloned().filter(|o| m(o)).collect();
    if !pd.is_empty() { search_parse_diag(&pd); }
    if m("C12.terminates-bounded") { search_parse_depth("C12.terminates-bounded"); }
    let gen: Vec<&str> = ["C08.dispatch", "C08.method-name", "C08.args", "C08.client", "C08.no-panic"].iter().cloned().filter(|o| m(o)).collect();
    if !det && !gen.is_empty() { search_gen(&gen); }
    let cert: Vec<&str> = ["C19.gate", "C19.step", "C19.own-id", "C19.mode", "C19.value"].iter().cloned().filter(|o| m(o)).collect();
    if !det && !cert.is_empty() { search_cert(&cert); }
    let fm: Vec<&str> = ["C10.parse-bounded", "C10.preserve-bounded", "C10.idempotent-bounded", "C10.colored-bounded", "C10.display-bounded"].iter().cloned().filter(|o| m(o)).collect();
    if !fm.is_empty() { search_format(&fm); }
    let gn: Vec<&str> = ["C09.reject", "C09.io", "C09.emit", "C09.nothing-on-failure", "C09.total", "C09.no-panic"].iter().cloned().filter(|o| m(o)).collect();
    if !gn.is_empty() { search_generate(&gn); }
    let wr: Vec<&str> = ["C17.wire-attrs"].iter().cloned().filter(|o| m(o)).collect();
    if !wr.is_empty() { search_wire_roundtrip(&wr); }
}
